"""Thorough tier: self-test of the checker on scratch copies of /repo's current tree.

  seeds    (/verif/seeded/<pid>-*/patch.diff)  : property-breaking edits confirmed by demonstration -> the
                                                 property's rules must report a violation
  variants (/verif/variants/*/patch.diff)      : behaviour-preserving refactorings -> the rules must stay silent

Each case: copy /repo (without target/.git) to a mkdtemp directory, apply the patch, extract MIR facts with the
driver, run the property's rules, delete the copy.  Nothing of the library is executed.  A patch that no longer
applies to the current tree is counted as skipped."""
import json
import os
import shutil
import subprocess
import sys
import tempfile
import time

import extract
from core import VERIF, Ctx, load_tables

REPO = os.environ.get("CFBSA_REPO", "/repo")


def cases_for(pid):
    out = []
    sd = os.path.join(VERIF, "seeded")
    if os.path.isdir(sd):
        for d in sorted(os.listdir(sd)):
            try:
                with open(os.path.join(sd, d, "meta.json")) as fh:
                    if json.load(fh).get("retired"):
                        continue        # the construct it mutated no longer exists (see its meta.json)
            except (OSError, ValueError):
                pass
            if d.split("-")[0] == pid and os.path.exists(os.path.join(sd, d, "patch.diff")):
                out.append(("seed", d, os.path.join(sd, d, "patch.diff")))
    vd = os.path.join(VERIF, "variants")
    if os.path.isdir(vd):
        for d in sorted(os.listdir(vd)):
            if os.path.exists(os.path.join(vd, d, "patch.diff")):
                out.append(("variant", d, os.path.join(vd, d, "patch.diff")))
    return out


def _one(args):
    pid, kind, name, patch = args
    import props
    import runner
    t0 = time.time()
    tmp = tempfile.mkdtemp(prefix="cfbsa-self-")
    facts = None
    try:
        dst = os.path.join(tmp, "repo")
        shutil.copytree(REPO, dst, ignore=shutil.ignore_patterns("target", ".git", "_seed"))
        r = subprocess.run(["git", "apply", "--whitespace=nowarn", patch], cwd=dst, stdout=subprocess.PIPE, stderr=subprocess.STDOUT, text=True)
        if r.returncode != 0:
            return {"kind": kind, "case": name, "status": "skipped", "why": "patch does not apply to the current tree"}
        try:
            facts = extract.extract(dst, "cfb", "dev", out_path=os.path.join(tmp, "facts.json"))
        except extract.ExtractError as e:
            return {"kind": kind, "case": name, "status": "skipped", "why": "patched copy does not compile: " + str(e)[-200:]}
        tables = load_tables()
        ctx = Ctx(facts, tables, name=name)
        ctx.repo_dir = dst
        ctx._is_ref = False
        known = {k["key"] for k in runner.load_known().get("findings", []) if k["property"] == pid}
        import re
        viol = []
        for rule in props.PROPS[pid]["rules"]:
            res = rule(ctx)
            for f in res.findings:
                key = re.sub(r"\{closure#\d+\}", "{closure}", f.key)
                if key not in known:
                    viol.append({"rule": res.rule, "key": key, "line": f.line, "file": f.file})
            for (n, c, fl) in res.floor_failures(reference=bool(getattr(ctx, '_is_ref', False))):
                viol.append({"rule": res.rule, "key": "%s/floor/%s" % (res.rule, n), "line": None, "file": None})
        want = kind == "seed"
        ok = bool(viol) == want
        return {"kind": kind, "case": name, "status": "ok" if ok else ("missed" if want else "false-alarm"),
                "reports": viol[:3], "wall_s": round(time.time() - t0, 2)}
    finally:
        shutil.rmtree(tmp, ignore_errors=True)
        if facts and os.path.exists(facts):
            try:
                os.remove(facts)
            except OSError:
                pass


def run(pid):
    cs = cases_for(pid)
    if not cs:
        return 0
    from multiprocessing import Pool
    with Pool(min(16, len(cs))) as pool:
        res = pool.map(_one, [(pid, k, n, p) for (k, n, p) in cs])
    seeds = [r for r in res if r["kind"] == "seed"]
    vars_ = [r for r in res if r["kind"] == "variant"]
    missed = [r for r in seeds if r["status"] == "missed"]
    alarms = [r for r in vars_ if r["status"] == "false-alarm"]
    skipped = [r for r in res if r["status"] == "skipped"]
    print("self-test %s: seeded changes reported %d/%d, behaviour-preserving variants silent %d/%d, skipped %d" % (
        pid, sum(1 for r in seeds if r["status"] == "ok"), len(seeds) - sum(1 for r in seeds if r["status"] == "skipped"),
        sum(1 for r in vars_ if r["status"] == "ok"), len(vars_) - sum(1 for r in vars_ if r["status"] == "skipped"), len(skipped)))
    # append to the evidence written by the main run
    ep = os.path.join(VERIF, "evidence", pid + ".json")
    try:
        with open(ep) as fh:
            ev = json.load(fh)
        ev["coverage"]["self_test"] = {
            "explanation": "checker self-test on scratch copies of the current tree: each kept seeded change of this property (confirmed to break it by a demonstration that is not part of the check) must be reported, each behaviour-preserving refactoring must leave the property's rules silent; only MIR extraction and the rules run, nothing of the library is executed",
            "cases": res,
        }
        ev["coverage"]["evaluations"] = ev["coverage"].get("evaluations", 0) + len(res) - len(skipped)
        with open(ep, "w") as fh:
            json.dump(ev, fh, indent=1)
    except (OSError, ValueError, KeyError):
        pass
    tables = load_tables()
    is_ref = extract.src_hash(REPO) in tables.get("reference", {}).get("src_hashes", [])
    if missed or alarms:
        for r in missed:
            print("SELFTEST-FAILED property=%s seeded change %s is not reported" % (pid, r["case"]))
        for r in alarms:
            print("SELFTEST-FALSE-ALARM property=%s variant %s: %s" % (pid, r["case"], json.dumps(r["reports"][:1])))
        if is_ref:
            return 3
        print("self-test outcome recorded only: /repo is not a reference tree, so seeded edits composed with its changes decide nothing")
    return 0
