"""R-ZERO (C08): every path that lengthens a stream without caller data
zero-fills the exposed range."""
import re

from core import Finding, RuleResult, view
from prov import Prov, guards

ZERO_SRC = (r"repeat\(const:0\)", r"repeat\(const:0,")


def _direct_zero_events(ctx, f):
    """Calls in f that write data whose provenance is an all-zero source."""
    v = view(ctx, f)
    pr = Prov(f)
    out = []
    for c in v.calls.values():
        if "io_write" not in ctx.cg.call_effects(c):
            continue
        args = [pr.operand(a) for a in c.term["args"]]
        if any(re.search(z, a) for z in ZERO_SRC for a in args):
            out.append(c)
    return out


def run(ctx):
    res = RuleResult("R-ZERO", "the function that stores a stream's new length zero-fills the newly exposed range on every path on which the new length exceeds the old one")
    tbl = ctx.table("zero")
    n = 0
    for fpath in tbl.get("resize_functions", []):
        f = ctx.fx.fns.get(fpath)
        if f is None:
            res.gone.append(fpath)
            continue
        n += 1
        v = view(ctx, f)
        pg = v.pg
        pr = Prov(f)
        g = guards(ctx, f)
        # the store of the new length: with_dir_entry_mut with a closure writing stream_len
        stores = [c for c in v.calls.values() if re.search(tbl.get("length_store_callee", "with_dir_entry_mut$"), c.name)]
        # zero events: direct, or a direct helper whose body has a direct zero event
        zs = list(_direct_zero_events(ctx, f))
        for c in v.calls.values():
            for t in c.targets:
                if t.path.startswith(tbl.get("helper_module", "internal::stream::")) and t.path != f.path and _direct_zero_events(ctx, t):
                    zs.append(c)
        key = "R-ZERO/%s" % f.path
        if not stores:
            res.gone.append(fpath + ":length-store")
            continue
        # mechanism B: zero on shrink in both chain kinds and on allocation of mini sectors
        mech_b = all(ctx.fx.fns.get(p) is not None and _direct_zero_events(ctx, ctx.fx.fns[p]) for p in tbl.get("mechanism_b_functions", []))
        if not zs:
            if mech_b:
                res.ok({"function": f.path, "mechanism": "B: zero on shrink and on mini-sector allocation"}, nontrivial=True)
            else:
                res.fail(Finding("R-ZERO", key + "/no-zero-fill", "%s stores a larger stream length without writing zeros over the newly exposed range (no write of io::repeat(0)/vec![0;n] data here or in a direct helper, and the chain layer does not zero on shrink/allocate): bytes of truncated or removed streams become visible" % f.path, f, stores[0].term["span"]))
            continue
        grow_rx = tbl.get("grow_condition", r"^\((Gt\(param:new_stream_len,.*stream_len|Lt\(.*stream_len,param:new_stream_len)\)\)$")
        problems = []
        has_grow_test = False
        for bb_, blk_ in enumerate(f.blocks):
            if blk_["cleanup"] or blk_["term"]["t"] != "switch":
                continue
            t_ = blk_["term"]
            vals_ = [str(x) for x, _ in t_["arms"]] + ["otherwise"]
            if any(re.search(grow_rx, a_) for v_ in vals_ for a_ in g.describe_all(bb_, v_, vals_)):
                has_grow_test = True
        for z in zs:
            atoms = g.atoms_at(("t", z.bb))
            if not any(re.search(grow_rx, a) for a in atoms) and has_grow_test:
                problems.append("the zero fill (line %d) is not controlled by the new > old comparison this function makes" % z.line)
            # "the previous fallible step succeeded" (also for an inlined guard helper whose result is threaded to
            # its `?`) is not a condition on the zero fill: on the other branch the function has already returned
            extra = [a for a in atoms if not re.search(grow_rx, a) and not re.search(r"stream_len|Try::branch|is #0| is (Ok|not Err)$", a)]
            # what holds because an early refusal was NOT taken (`if entry is not a stream { return Err(..) }`) is a
            # precondition of the whole function, not a condition on the zero fill
            pre = _precondition_atoms(ctx, f, g)
            extra = [a for a in extra if a not in pre]
            if extra:
                problems.append("the zero fill (line %d) also depends on: %s" % (z.line, "; ".join(x[:80] for x in extra)))
        # every growing path passes the zero fill before the length store
        grow_edges = []
        not_grow_edges = set()
        for bb, blk in enumerate(f.blocks):
            if blk["cleanup"] or blk["term"]["t"] != "switch":
                continue
            t = blk["term"]
            vals = [str(x) for x, _ in t["arms"]] + ["otherwise"]
            tg = [b for _, b in t["arms"]] + [t["otherwise"]]
            arms_ = [(val, tgt, g.describe(bb, val, vals)) for val, tgt in zip(vals, tg)]
            for val, tgt, a in arms_:
                if a and re.search(grow_rx, a):
                    grow_edges += pg.edge_node(bb, tgt)
                    # the other edge(s) of the same comparison: a path that has taken `new > old` once does not take
                    # `new <= old` later (the lengths do not change in between: they are the function's inputs)
                    for val2, tgt2, a2 in arms_:
                        if tgt2 != tgt:
                            not_grow_edges.update(pg.edge_node(bb, tgt2))
        zok = set()
        for z in zs:
            zok.update(v.ok_nodes(z.bb) or [("t", z.bb)])
        if not grow_edges:
            # the comparison may live in the zero-fill helper (checked below): then every path is a growing path
            grow_edges = [pg.entry()]
        if True:
            reach = pg.reach(grow_edges, zok | set(v.all_err_nodes()) | not_grow_edges)
            if any(("t", s.bb) in reach for s in stores):
                problems.append("the length store is reachable on a growing path without passing the zero fill")
            # ... and not the other way round: a store that comes first publishes the new length while the bytes it
            # covers still hold whatever was there; a fault in the fill then leaves them visible
            for s_ in stores:
                after_store = pg.reach_after(("t", s_.bb))
                if any(("t", z.bb) in after_store for z in zs):
                    problems.append("the length store (line %d) comes before the zero fill: if the fill fails, the new length is already in the entry and the uncleared bytes are visible" % s_.line)
                    break
        if problems:
            res.fail(Finding("R-ZERO", key + "/incomplete-zero-fill", "; ".join(problems), f, zs[0].term["span"]))
        else:
            res.ok({"function": f.path, "zero_fill": [z.name.split("::")[-1] for z in zs], "controlled_by": "new_stream_len > old stream_len", "precedes": "stream_len store"}, nontrivial=True)
    # the zero-fill helpers themselves: the only way out without writing zeros is "the range is empty"
    nb = 0
    for f in list(ctx.fx.fns.values()):
        if not f.path.startswith(tbl.get("helper_module", "internal::stream::")) or f.path in tbl.get("resize_functions", []) or f.kind == "closure":
            continue
        zs = _direct_zero_events(ctx, f)
        if not zs or not any(re.search(r"take\(", " ".join(Prov(f).operand(a) for a in z.term["args"])) for z in zs):
            continue
        nb += 1
        v = view(ctx, f)
        pg = v.pg
        pr = Prov(f)
        g = guards(ctx, f)
        ranges = []
        for z in zs:
            for a in z.term["args"]:
                m = re.search(r"take\(.*?,Sub\((.*)\)\)", pr.operand(a))
                if m:
                    from prov import _split_top
                    parts = _split_top(m.group(1))
                    if len(parts) == 2:
                        ranges.append((parts[0], parts[1]))
        # the end of the range is at or after `from`, rounded UP to the unit: an end rounded DOWN (div_euclid, plain
        # division times the unit) lies at or before `from`, so nothing is ever written
        for z in zs:
            for a in z.term["args"]:
                pa = pr.operand(a)
                if re.search(r"(div_euclid|div_floor)\(param:from,|Mul\(Div\(param:from,[^()]*(\([^()]*\))*[^()]*\),|BitAnd\(param:from,Not\(", pa) and not re.search(r"div_ceil\(param:from|next_multiple_of\(param:from", pa):
                    res.fail(Finding("R-ZERO", "R-ZERO/%s/range-end-rounded-down" % f.path, "%s rounds the old length DOWN to its unit for the end of the range to zero (%s): that end is never beyond the old length, so the rest of the sector that holds the old end is never cleared" % (f.path.split("::")[-1], pa[:110]), f, z.term["span"]))
        # the end of the range is the new length itself, or the new length capped at the sector boundary above `from`
        # (what lies beyond is in freshly initialised sectors).  A cap computed from anything else - the chain's
        # length, another stream's length, an extra parameter - leaves part of the gained range as it was.
        for (x, y) in ranges:
            m = re.match(r"^(?:Ord::|<\w+ as Ord>::|std::cmp::|cmp::)?min\((.*)\)$", x)
            if re.match(r"^param:\w+$", x):
                continue
            if not m:
                continue
            from prov import _split_top
            ps = _split_top(m.group(1))
            if len(ps) != 2:
                continue
            cap = ps[1] if re.match(r"^param:\w+$", ps[0]) else (ps[0] if re.match(r"^param:\w+$", ps[1]) else None)
            if cap is None:
                continue
            foreign = [t_ for t_ in re.findall(r"param:\w+(?:\.\w+)*", cap) if t_ != y and not t_.startswith("param:minialloc")]
            calls = {c_.split("::")[-1] for c_ in re.findall(r"([A-Za-z_][\w:<> ]*)\(", cap)} - {"Mul", "Add", "Sub", "Div", "cast", "saturating_mul", "saturating_add", "checked_mul", "div_ceil", "next_multiple_of", "sector_len", "version", "ok", "BitAnd", "BitOr", "Not", "mini_sector_len", "wrapping_mul"}
            if foreign or calls:
                res.fail(Finding("R-ZERO", "R-ZERO/%s/range-end-capped" % f.path, "%s stops the zero fill at min(new length, %s): a cap that depends on %s (and not only on `from` and the sector size) leaves part of the gained range with its old contents" % (f.path.split("::")[-1], cap[:100], ", ".join(sorted(set(foreign) | calls))[:80]), f, zs[0].term["span"]))
        # the count is the whole range end - from: a constant taken off it (or put on it) is an off-by-N
        for z in zs:
            for a in z.term["args"]:
                m = re.search(r"take\(.*?,((Sub|Add)\(Sub\(.*\),const:[1-9]\d*\))\)", pr.operand(a))
                if m:
                    res.fail(Finding("R-ZERO", "R-ZERO/%s/zero-count-adjusted" % f.path, "%s writes %s zero bytes: the range [from, end) has end - from bytes, so the adjusted count leaves the last byte(s) of the gained range with their old contents (or runs past it)" % (f.path.split("::")[-1], m.group(1)[:90]), f, z.term["span"]))
        skip = set()
        for bb, blk in enumerate(f.blocks):
            if blk["cleanup"] or blk["term"]["t"] != "switch":
                continue
            t = blk["term"]
            vals = [str(x) for x, _ in t["arms"]] + ["otherwise"]
            tg = [b for _, b in t["arms"]] + [t["otherwise"]]
            for val, tgt in zip(vals, tg):
                atoms = g.describe_all(bb, val, vals)
                for (x, y) in ranges:
                    from prov import prov_eq, _split_top as _st
                    for a in atoms:
                        m_ = re.match(r"^\((Le|Ge|Eq)\((.*)\)\)$", a)
                        if not m_:
                            continue
                        ps_ = _st(m_.group(2))
                        if len(ps_) != 2:
                            continue
                        l_, r_ = ps_
                        if (m_.group(1) in ("Le", "Eq") and prov_eq(l_, x) and prov_eq(r_, y)) or (m_.group(1) in ("Ge", "Eq") and prov_eq(l_, y) and prov_eq(r_, x)):
                            skip.update(pg.edge_node(bb, tgt))
                        # a range written as [from, from + n): `n == 0` is the emptiness test
                        if m_.group(1) == "Eq" and (r_ == "const:0" or l_ == "const:0"):
                            n_ = l_ if r_ == "const:0" else r_
                            if prov_eq(x, "Add(%s,%s)" % (y, n_)) or prov_eq(x, "Add(%s,%s)" % (n_, y)):
                                skip.update(pg.edge_node(bb, tgt))
        zok = set()
        for z in zs:
            zok.update(v.ok_nodes(z.bb) or [("t", z.bb)])
        reach = pg.reach([pg.entry()], zok | skip | set(v.all_err_nodes()))
        rets = [x for x in reach if x[0] == "t" and f.blocks[x[1]]["term"]["t"] == "return"]
        if rets:
            pth = pg.path(pg.entry(), rets, zok | skip | set(v.all_err_nodes()))
            conds = sorted({a for nd in (pth or []) if nd[0] == "e" for a in g.atoms_at(nd)[:0]})
            res.fail(Finding("R-ZERO", "R-ZERO/%s/skips-zero-fill" % f.path, "%s can return Ok without writing zeros although the range is not tested to be empty (the only accepted way round the fill is end <= from for the range %s): stale bytes of the old tail stay visible" % (f.path, "; ".join("[%s, %s)" % (y[:40], x[:40]) for x, y in ranges)[:200]), f, f.blocks[rets[0][1]]["term"]["span"]))
        else:
            res.ok({"function": f.path, "zero_events": [z.line for z in zs], "skip_only_if": ["%s <= %s" % (x[:50], y[:30]) for x, y in ranges]}, nontrivial=True)
    res.floor("zero-fill helpers", nb, ctx.table("floors").get("zero_helpers", 0))
    res.floor("resize functions", n, ctx.table("floors").get("zero_fns", 0))
    return res


def _precondition_atoms(ctx, f, g):
    """Guard atoms of the edges that remain when a switch has an edge leading to nothing but an error return: the
    complement of an early refusal."""
    c = ctx.__dict__.setdefault("_precond_atoms", {})
    if f.path in c:
        return c[f.path]
    from rules_sink import _edge_label
    v = view(ctx, f)
    pg = v.pg
    errs = set(v.all_err_nodes())
    rets = set(pg.returns())
    out = set()
    for b, blk in enumerate(f.blocks):
        if blk["cleanup"] or blk["term"]["t"] != "switch":
            continue
        succ = f.succ(b)
        refusing = []
        for k, tgt in enumerate(succ):
            en = pg.edge_node(b, tgt)
            if not en:
                continue
            reach = pg.reach(en, errs)
            if not (reach & rets):
                refusing.append(k)
        if not refusing or len(refusing) == len(succ):
            continue
        for k, tgt in enumerate(succ):
            if k in refusing:
                continue
            val, vals = _edge_label(f, b, k)
            out.update(g.describe_all(b, val, vals))
    c[f.path] = out
    return out


def minifill(pid):
    """R-MINIFILL: mini sectors are handed out as they are (allocate_mini_sector writes nothing into them; regular
    sectors are initialised with SectorInit::Zero).  So when a stream in the mini stream grows, the zero fill runs
    from the old end to the NEW LENGTH: wherever the stream layer copies zeros (`io::repeat(0).take(n)`) into a mini
    chain, n is a plain difference of two lengths - not one capped at a mini-sector boundary (`min`, `div_ceil`,
    `% MINI_SECTOR_LEN`), which is the regular chain's rule and leaves whatever a removed stream wrote in the
    recycled mini sectors visible."""
    def run(ctx):
        res = RuleResult("R-MINIFILL(%s)" % pid, "zeros copied into a mini chain by the stream layer run to the new length: the byte count of the zero source is a plain difference of lengths, never capped at a sector boundary")
        n = 0
        for f in ctx.fx.fns.values():
            if not f.path.startswith("internal::stream::"):
                continue
            v = view(ctx, f)
            pr = None
            for bb, c in sorted(v.calls.items()):
                if not re.search(r"io::copy$|Write::write_all$|Write::write$", c.name) or len(c.term["args"]) < 2:
                    continue
                pr = pr or Prov(f)
                args = [pr.operand(a) for a in c.term["args"]]
                src = [a for a in args if re.search(r"repeat\(const:0", a)]
                dst = [a for a in args if "open_mini_chain(" in a]
                if not src or not dst:
                    continue
                n += 1
                m = re.search(r"Read::take\(io::repeat\(const:0\),(.*)\)$", src[0])
                amount = m.group(1) if m else src[0]
                if re.search(r"MINI_SECTOR_LEN|sector_len|Ord::min\(|div_ceil|Rem\(|next_multiple_of|const:64\b|const:63\b", amount):
                    res.fail(Finding(res.rule, "R-MINIFILL/%s/zero-fill-capped-at-a-sector-boundary" % f.path, "the zeros copied into the mini chain stop at %s: mini sectors are not blank when they are allocated, so everything from the old end to the new length must be zeroed - the bytes of a removed stream stay visible in the recycled mini sectors beyond that boundary" % amount[:100], f, c.term["span"]))
                else:
                    res.ok({"function": f.path, "line": c.line, "zeros": amount[:80]}, nontrivial=True)
        res.floor("zero copies into mini chains", n, ctx.table("floors").get("minifill_sites", 0))
        return res
    return run


def surplus(pid):
    """R-SURPLUS: zero_fill_stream clears, for a regular chain, only the rest of the sector that holds the old end: the
    sectors beyond it are taken to be the ones `set_len` has just appended, which come zero-initialised.  That holds
    only if a chain never has more sectors than its entry's length needs.  write_data_to_stream breaks it on a fault:
    it writes through the chain handle - which appends sectors at the end of the chain - and updates the directory
    entry afterwards; an error exit between the two leaves appended, filled sectors in a chain whose entry still holds
    the old length.  Decided as the conjunction of the two constructs: (a) the zero source copied into a regular chain
    is capped at a sector boundary, and (b) in a write-back function an error exit is reachable after a write
    through a chain handle and before the entry update."""
    def run(ctx):
        res = RuleResult("R-SURPLUS(%s)" % pid, "if the zero fill of a regular chain stops at the end of the old last sector, no write-back can fail between appending sectors to the chain and updating the entry's length")
        capped = []
        for f in ctx.fx.fns.values():
            if not f.path.startswith("internal::stream::"):
                continue
            v = view(ctx, f)
            pr = None
            for bb, c in sorted(v.calls.items()):
                if not re.search(r"io::copy$", c.name) or len(c.term["args"]) < 2:
                    continue
                pr = pr or Prov(f)
                args = [pr.operand(a) for a in c.term["args"]]
                if any(re.search(r"repeat\(const:0", a) for a in args) and any("open_chain(" in a for a in args):
                    src = [a for a in args if re.search(r"repeat\(const:0", a)][0]
                    if re.search(r"Ord::min\(|cmp::min\(|div_ceil|Rem\(|next_multiple_of", src):
                        capped.append((f, c))
        leaky = []
        for fpath in ctx.table("zero").get("writeback_functions", ["internal::stream::write_data_to_stream"]):
            f = ctx.fx.fns.get(fpath)
            if f is None:
                continue
            v = view(ctx, f)
            pg = v.pg
            stores = [c for c in v.calls.values() if c.name.endswith("with_dir_entry_mut")]
            chain_writes = [c for c in v.calls.values() if re.search(r"Write::write_all$|Write::write$|io::copy$", c.name) and "io_write" in ctx.cg.call_effects(c)]
            errs = set(v.all_err_nodes())
            for w in chain_writes:
                after = pg.reach_after(("t", w.bb), avoid={("t", s_.bb) for s_ in stores})
                if any(e in after for e in errs) or any(e in (v.err_nodes(w.bb) or []) for e in errs):
                    leaky.append((f, w))
                    break
        if capped and leaky:
            f, c = capped[0]
            res.fail(Finding(res.rule, "R-SURPLUS/stream-layer/regular-fill-capped-while-a-failed-write-back-leaves-surplus-sectors", "%s clears a regular chain only up to the end of the sector that holds the old end, and %s can fail after sectors were appended to the chain and filled but before the entry's length is updated: a later growing set_len reuses those sectors and the stream's own discarded bytes read back where zeros are promised" % (f.path.split("::")[-1], leaky[0][0].path.split("::")[-1]), f, c.term["span"]))
        else:
            res.ok({"regular_fill_capped_at_sector_end": bool(capped), "write_back_can_fail_between_append_and_entry_update": bool(leaky)}, nontrivial=True)
        res.floor("zero copies into regular chains", len(capped) if capped else 0, 0)
        return res
    return run
