"""Property -> rules mapping."""
import json
import os
import sys

import rules_lock

PROPS = {
    "C14": {
        "rules": [rules_lock.run],
        "explanation": "R-LOCK: all shared state is behind one RwLock<MiniAllocator<F>>; with a single lock and terminating critical sections, "
                       "no deadlock <=> no thread requests the lock while holding a guard on it. Guard live ranges are computed from MIR "
                       "(acquiring call .. Drop terminator / move-out) by forward dataflow; no call made under a live guard may have lock_read/lock_write "
                       "in its transitive effect set (call graph incl. closures, dyn Flusher targets, Drop impls). Also: single lock, no other blocking primitive, "
                       "guards never stored in fields / public signatures / by-value captures, no interior mutability in state types.",
        "not_decided": "what a sequence of read-only calls observes across several acquisitions; backends that call back into the same CompoundFile; termination of critical sections (C05/C11)",
    },
}


def explain(path):
    with open(path) as f:
        v = json.load(f)
    print(json.dumps(v, indent=1))
    fn = v.get("function")
    if fn:
        import extract
        from facts import Facts
        fx = Facts(extract.extract(os.environ.get("CFBSA_REPO", "/repo"), "cfb", "dev"))
        if fn in fx.fns:
            print(fx.fns[fn].dump())
    return 0


def thorough_extras(pid):
    return 0
