"""Property -> rules mapping."""
import json
import os
import sys

import rules_api
import rules_det
import rules_entry
import rules_follow
import rules_guard
import rules_wt
import rules_units
import rules_zero
import rules_io
import rules_layout
import rules_lock
import rules_mode
import rules_name
import rules_own
import rules_sink
import rules_struct

PROPS = {
    "C02": {
        "rules": [rules_own.make("C02"), rules_struct.difatcap("C02"), rules_struct.stalechain("C02"), rules_mode.strictlist("C02"), rules_struct.selflink("C02"), rules_wt.run, rules_follow.make("R-HDR", "C02"), rules_follow.make("R-INIT", "C02"), rules_struct.freshid, rules_struct.hdrcount("C02"), rules_struct.hdrv3("C02"), rules_struct.parenttype("C02"), rules_entry.gstore, rules_struct.namelen("C02"), rules_layout.run("C02"), rules_entry.ctorvalues("C02"), rules_wt.reverse("C02"), rules_struct.fmtconst("C02"), rules_follow.make("R-MARK", "C02"), rules_follow.make("R-CTOR", "C02"), rules_struct.wholetable("C02"), rules_struct.difatlink("C02"), rules_lock.statecells("C02"), rules_own.stateset("C02"), rules_det.idwidth("C02")],
        "explanation": "R-WT: every store site to an in-memory mirror of on-disk state (cached FAT/DIFAT/DIFAT-sector list, MiniFAT and its start sector, directory entry table, sector count; enumerated automatically from MIR: &mut borrows of mirror fields, stores through dir_entry_mut, direct field stores) is paired in the same function with a file write of the same datum "
                       "(same value by provenance, or write_dir_entry/write_to/seek_within_dir_entry+write_le_u32 of the same entry id at the field's offset), either dominating the store or on every Ok path after it; six listed exceptions with reasons. "
                       "R-HDR: header counters (words 40/44/60/64/68/72) are rewritten in the same function that changes the chain they count, on every Ok path. R-INIT: every sector handed out by allocate_sector - reused from the free list or appended - is reset with the caller's initialiser before it is returned (a directory sector recycled without SectorInit::Dir would reopen as garbage entries).",
        "not_decided": "that the bytes reopen to the same state; that the right value is written; crash points inside an operation",
    },
    "C03": {
        "rules": [rules_struct.linkend("C03"), rules_struct.difatcap("C03"), rules_follow.make("R-MARK"), rules_follow.make("R-HDR", "C03"), rules_follow.make("R-BLANK"), rules_follow.make("R-INIT", "C03"), rules_own.make("C03"), rules_entry.gstore, rules_layout.run("C03"), rules_struct.cutoff, rules_struct.unit, rules_struct.freshid, rules_follow.make("R-FREEOLD", "C03"), rules_struct.hdrcount("C03"), rules_struct.hdrv3("C03"), rules_struct.parenttype("C03"), rules_struct.initkind("C03"), rules_struct.linkkeep("C03"), rules_struct.unlink("C03"), rules_struct.blankown("C03"), rules_struct.killread("C03"), rules_struct.ceil("C03"), rules_entry.slotreset("C03"), rules_guard.make("R-BEGINGUARD"), rules_follow.make("R-FREEREBUILD", "C03"), rules_struct.detach("C03"), rules_struct.namelen("C03"), rules_struct.freebeforeremove("C03"), rules_units.units("C03"), rules_struct.handon("C03"), rules_struct.slotid("C03"), rules_struct.keepcount("C03"), rules_follow.make("R-FREEALL", "C03"), rules_follow.make("R-CUTTAIL", "C03"), rules_struct.stalechain("C03"), rules_struct.allblack("C03"), rules_struct.selflink("C03"), rules_entry.ctorvalues("C03"), rules_struct.fmtconst("C03"), rules_struct.fold("C03"), rules_struct.wholetable("C03"), rules_struct.handlekind("C03"), rules_wt.reverse("C03"), rules_struct.growcount("C03"), rules_struct.difatlink("C03"), rules_struct.kindguard("C03"), rules_own.stateset("C03")],
        "explanation": "Format-maintenance obligations visible as code shape: R-MARK (FAT/DIFAT sectors marked as such; allocated cell END_OF_CHAIN before use; freed cells FREE), R-HDR (header counts follow the chains), "
                       "R-BLANK (a removed entry's slot is overwritten with DirEntry::unallocated() on disk), R-GSTORE (no CLSID/timestamps on streams: every store to those fields is dominated by a test excluding ObjType::Stream; only storages are stamped at creation), R-OWN (allocation protocol: who may change FAT cells / free lists / initialise sectors), R-LAYOUT (symbolic walk of DirEntry::read_from/write_to and Header::read_from/write_to in control-flow order: same widths, counts and fields at the same offsets, totals 128 and 512, in-place patch offsets 68/72/76 and 40/44/60/64/68/72/76 equal the derived field offsets).",
        "not_decided": "single ownership of sectors, no orphans, chain length vs stream size, sibling-tree order and colouring: invariants over the contents of FAT and directory across histories",
    },
    "C07": {
        "rules": [rules_entry.reloc, rules_entry.hstore, rules_own.make("C07"), rules_struct.cutoff, rules_entry.moveall, rules_struct.unlink("C07"), rules_struct.blankown("C07"), rules_struct.linkkeep("C07"), rules_follow.make("R-MARK", "C07"), rules_struct.freshid, rules_entry.fieldown("C07"), rules_follow.make("R-FREEREBUILD", "C07"), rules_struct.handon("C07"), rules_struct.slotid("C07"), rules_struct.parenttype("C07"), rules_wt.reverse("C07"), rules_struct.kindguard("C07"), rules_own.stateset("C07"), rules_entry.entrykeep("C07"), rules_follow.make("R-WBENTRY", "C07")],
        "explanation": "A handle is bound to its stream only by a slot index, so: R-RELOC - every whole-entry store into the directory table takes a freshly constructed entry (DirEntry::new/unallocated/empty_root_entry/read_from by provenance), never a copy of another slot, and no Vec reordering is applied to the table; "
                       "R-HSTORE - all DirEntry field stores reachable (call graph) from Stream methods are confined to start_sector/stream_len, no structural directory operation is reachable from a handle, and with_dir_entry_mut is applied to the handle's own stream_id; R-OWN - FAT/MiniFAT cells, sector (re)initialisation and the free lists change only inside the allocator's protocol functions with the protocol's argument shapes (a sector taken outside the protocol could be handed to two chains, so that a write through one handle lands in another stream).",
        "not_decided": "that the bytes of other streams are untouched (sector ownership is value-level); validity of a handle after its own stream is removed",
    },
    "C05": {
        "rules": [rules_sink.sink("read"), rules_sink.qual_rule("read"), rules_sink.term("read"), rules_sink.alloc("read"), rules_guard.make("R-INV"), rules_own.make("C05"), rules_follow.make("R-CTOR", "C05"), rules_struct.chainpos("C05"), rules_lock.reacquire("C05"), rules_struct.nochild("C05"), rules_units.units("C05"), rules_struct.wholetable("C05"), rules_struct.walkall("C05")],
        "explanation": "On the read surface (call-graph closure of the read-only API; the write-back path behind the dirty-marker call is cut because the marker is only ever set by Stream::write): "
                       "R-TERM - every natural loop has a termination certificate (finite std iterator, shrinking collection, grow-to-bound, seen-set with refusing exit, checked chain walk with first-sector test, or a named acyclicity invariant); "
                       "R-SINK - every panic-capable site (MIR Assert terminators for bounds/overflow/division, Index/IndexMut calls, unwrap/expect, panic and assertion expansions) is discharged by interval evaluation over MIR operands, by a dominating guard, by an id qualifier, or by an audited table entry whose required guard atoms still dominate it; "
                       "R-QUAL - ids reaching trusted index sites carry their qualifier on every call site (interprocedural inference with guard-sensitive introduction rules); R-ALLOC - no allocation is sized by file data without a bound; "
                       "R-INV / R-CTOR / R-OWN - the validators still establish the invariants the trusted sinks lean on, constructors validate before returning Ok, chain id lists only receive checked ids.",
        "not_decided": "that the audited guards are arithmetically sufficient (audited, not proved); that memory stays proportional to the input beyond 'no single unclamped allocation'; panics inside std/uuid/fnv",
        "assumptions": ["audited sink entries (rules/sinks.json) record a human judgement made once by reading the code; the analysis re-checks only that their required guards still dominate the sink"],
    },
    "C06": {
        "rules": [rules_io.dirtyrange("C06"), rules_struct.setlennoop("C06"), rules_io.flushfirst, rules_io.window, rules_io.posdim, rules_io.poskeep, rules_struct.cutoff, rules_zero.run, rules_struct.ceil("C06"), rules_api.errkind("C06"), rules_io.buffull("C06"), rules_io.writeat("C06"), rules_struct.initkind("C06"), rules_sink.sink("read"), rules_units.units("C06"), rules_struct.seekend("C06"), rules_struct.seekbound("C06"), rules_struct.kindguard("C06"), rules_own.stateset("C06"), rules_struct.setlenguard("C06"), rules_det.written("C06")],
        "explanation": "Cache-protocol clauses of the hand-written stream buffer, decided as path properties over the MIR of every Stream method: "
                       "R-FLUSHFIRST (every window move - store to buf_offset_from_start, StreamBuffer::clear, refill_with - is preceded on every path by the ok successor of flush_changes, with no mark_modified in between) and "
                       "R-WINDOW (after the window offset is stored, every path to any return, error exits included, passes clear or a successful refill), R-POSDIM (every value stored as window offset or stream length is a stream position - old offset + buffer-relative amount, current_position(), or a validated absolute target - never a bare buffer cursor), R-ERRKIND rows (the five out-of-range seeks are InvalidInput).",
        "not_decided": "equality with a byte vector for all call sequences and buffer sizes (values of pos/cap/offset/total_len across histories); set_len near u64::MAX",
    },
    "C08": {
        # Since the repair of D26 (bc7ee1f) the zero fill clears the WHOLE gained range of either kind of chain, so what
        # a kept, recycled or never-initialised sector held can no longer come back when a stream grows: R-INIT,
        # R-INITKIND, R-KEEPCOUNT, R-CEIL and R-CUTTAIL are no longer necessary conditions of THIS property and were
        # taken out of its check (they still run for C02 / C03 / C06 / C15, where chain length, sector kind and
        # released space are the matter).
        "rules": [rules_struct.branchunit("C08"), rules_zero.run, rules_io.poskeep, rules_det.short, rules_units.units("C08"), rules_zero.minifill("C08"), rules_zero.surplus("C08"), rules_det.written("C08")],
        "explanation": "R-ZERO: in the function that stores a stream's new length (resize_stream, reached from Stream::set_len), a zero-fill event (a backend write whose data provenance is io::repeat(0) / [0; N], directly or in a direct helper) exists, is controlled only by the comparison new length > old length, and lies on every path from the 'grows' edge of that comparison to the length store (error exits excepted). "
                       "Alternatively accepted: zeroing on shrink in both chain kinds plus zeroing of newly allocated mini sectors. R-INIT: regular sectors are reset with the requested initialiser (SectorInit::Zero for stream data) on both the reuse and the append path of allocate_sector.",
        "not_decided": "that the bytes are zero and that the zero-filled range is exactly [old, new): values",
    },
    "C09": {
        "rules": [rules_struct.dotdot("C09"), rules_sink.treeid_in("C09", "internal::directory::", "in the directory's tree code every entry whose links are read or written is reached through the walk of the same call: from ROOT, a parent found by lookup, a link compared with NO_STREAM, or a freshly allocated slot - not through an id remembered from an earlier call"), rules_name.oneorder("C09"), rules_name.validname, rules_name.norm, rules_name.orient, rules_struct.unit, rules_struct.unlink("C09"), rules_struct.blankown("C09"), rules_struct.linkkeep("C09"), rules_struct.fold("C09"), rules_det.narrow_in("C09", ["internal::path::"], "the name validation / comparison functions"), rules_struct.namelen("C09"), rules_api.errkind("C09"), rules_name.normbody("C09"), rules_struct.namelimit("C09"), rules_struct.detach("C09"), rules_name.lookupexit("C09"), rules_struct.handon("C09"), rules_wt.reverse("C09"), rules_name.normuse("C09"), rules_io.refusalkept("C09")],
        "explanation": "R-VALIDNAME (must-pass-through, interprocedural): from every DirEntry::new call with a non-constant name, walking up the call graph along the name argument to the public methods, some function validates the name (ok successor of validate_name on data derived from the same parameter dominates the forwarding call; a completed validation loop counts) and no state mutation precedes that validation on the chain. "
                       "R-NORM: every API method's path parameter reaches only name_chain_from_path (or formatting / forwarding to another API method), and lookups/inserts/removals take names derived from its result. "
                       "R-ORIENT: all compare_names sites agree on orientation (sought name first; Less -> left_sibling, Greater -> right_sibling in both the walk and the link update; validate rejects exactly != Less for (left,node) and (node,right)); no other comparator touches entry names in the directory layer. "
                       "R-ERRKIND rows: over-long name, forbidden character, prefix/escaping/non-UTF-8 path are InvalidInput.",
        "not_decided": "that compare_names is the CFB order over all Unicode (ASCII fast path vs general path, upper-casing table); that names are stored verbatim and found under every case variant",
    },
    "C10": {
        "rules": [rules_struct.dotdot("C10"), rules_api.noeffect, rules_name.validname_effects_only, rules_api.deeprefusal, rules_struct.namelimit("C10"), rules_struct.handon("C10"), rules_struct.parenttype("C10"), rules_struct.unit, rules_struct.seekbound("C10"), rules_name.normuse("C10"), rules_struct.handlekind("C10"), rules_name.allvalid("C10"), rules_name.normbody("C10")],
        "explanation": "R-NOEFFECT (must-not-precede): refusal points of every API method (io::Error::new with NotFound/AlreadyExists/InvalidInput, and error exits of effect-free fallible callees that can construct such kinds) are enumerated from MIR; "
                       "no path from the entry to a refusal point may pass a call whose transitive effects include a state/file mutation, a Stream drop, or a store to a Stream field. R-VALIDNAME(noeffect): the refusal of an invalid name (made below the API layer, in the directory code) is not preceded by a mutation anywhere on the creation call chain.",
        "not_decided": "bit-for-bit equality of state (follows from 'no effect ran' only given that effect-free code is effect-free, which the effect closure establishes for this crate); partial effects of remove_storage_all when a later step is refused by a callee (create_storage_all: an invalid component is refused up front, R-ALLVALID; a later step failing for another reason - the backend - is C13's matter)",
    },
    "C11": {
        "rules": [rules_sink.sink("mutation"), rules_sink.qual_rule("mutation"), rules_sink.term("mutation"), rules_sink.alloc("mutation"), rules_guard.make("R-INV"), rules_own.make("C11"), rules_follow.make("R-CTOR", "C11"), rules_struct.freelist, rules_entry.slotreset("C11"), rules_struct.chainpos("C11"), rules_lock.reacquire("C11"), rules_struct.nameinv("C11"), rules_struct.lenbound("C11"), rules_struct.nochild("C11"), rules_struct.stalelen("C11"), rules_struct.treetypes("C11"), rules_struct.detach("C11"), rules_units.units("C11"), rules_struct.parenttype("C11"), rules_struct.wholetable("C11"), rules_struct.handlekind("C11"), rules_io.poskeep, rules_struct.walkall("C11")],
        "explanation": "Same engine as C05 on the mutation surface (every public method, dev profile so that debug assertions and overflow checks count as panics): R-TERM, R-SINK, R-QUAL, R-ALLOC, R-INV, R-CTOR, R-OWN. "
                       "Fields no validator covers (DirEntry.start_sector / stream_len, special FAT values) must reach index sites and raw walks only through the checked accessors or a dominating chain validation; the audit of the sink table found and led to repairs of five panics on damaged-but-accepted files, (the two that had been recorded as known findings, D12 and D14, were repaired in rounds 13 and 14).",
        "not_decided": "as C05; what several handles on one stream, or a handle whose stream was removed and whose slot was re-used, read and write (no panic any more, but no defined meaning either); resource exhaustion by caller-chosen sizes",
        "assumptions": ["audited sink entries (rules/sinks.json) record a human judgement made once by reading the code; the analysis re-checks only that their required guards still dominate the sink"],
    },
    "C12": {
        "rules": [rules_struct.refillcap("C12"), rules_io.errdisc(["io_read", "io_seek"], "read"), rules_io.window, rules_det.noerrafter("C12"), rules_det.seekfirst, rules_io.posatomic("C12")],
        "explanation": "R-ERRDISC(read): every call site whose callee transitively performs backend read/seek and returns io::Result is classified by what happens to the Result (?, returned, matched with an Err arm that returns Err; not dropped, .ok(), unwrap_or, is_ok). "
                       "R-WINDOW on error exits: after the buffer window offset moves, no error exit may leave the old window's bytes in place.",
        "not_decided": "that the bytes returned equal the fault-free run (values); behaviour of std's read_exact/read_to_end themselves",
    },
    "C13": {
        "rules": [rules_io.posatomic("C13"), rules_struct.predwalk("C13"), rules_lock.reacquire("C13"), rules_io.errdisc(["io_write", "io_flush", "io_seek"], "write"), rules_io.dirty, rules_io.flushreach, rules_follow.make("R-WBENTRY", "C13"), rules_wt.order, rules_follow.make("R-RETRY", "C13"), rules_follow.make("R-SETTER", "C13"), rules_entry.closurestore("C13"), rules_struct.seekend("C13"), rules_struct.freelist],
        "explanation": "R-ERRDISC(write): no io::Result of a call with backend write/flush/seek effect is dropped (one listed exception: Drop for Stream). "
                       "R-DIRTY: typestate of the dirty marker Stream.flusher - on every path from the arm that took the marker to any return, either the ok successor of the write-back is passed or the marker is stored back; every Ok(n>0) path of Stream::write calls mark_modified. "
                       "R-FLUSHREACH: every Ok path of each link of the flush chain reaches <F as Write>::flush, and Stream::flush writes back first. R-WBENTRY: every Ok path of the flusher reaches write_data_to_stream, and every Ok path of write_data_to_stream / resize_stream rewrites the stream's directory entry (memory is updated before the file write, so only an unconditional rewrite lets a retried flush repair a failed one).",
        "not_decided": "no panic/hang after a failed write on half-updated state (C11's question); that the flushed bytes are the accepted bytes (values)",
    },
    "C15": {
        "rules": [rules_struct.cutoff, rules_struct.linkend("C15"), rules_guard.make("R-REUSE.consult"), rules_follow.make("R-REUSE"), rules_guard.make("R-CAP"), rules_follow.make("R-FREEOLD", "C15"), rules_own.make("C15"), rules_struct.killread("C15"), rules_mode.rawfield("C15"), rules_struct.linkkeep("C15"), rules_struct.ceil("C15"), rules_struct.dirlen("C15"), rules_guard.make("R-BEGINGUARD"), rules_follow.make("R-FREEREBUILD", "C15"), rules_struct.trimloop("C15"), rules_struct.freebeforeremove("C15"), rules_units.units("C15"), rules_follow.make("R-BLANK"), rules_struct.keepcount("C15"), rules_follow.make("R-FREEALL", "C15"), rules_follow.make("R-CUTTAIL", "C15"), rules_wt.reverse("C15"), rules_struct.growcount("C15"), rules_struct.kindguard("C15"), rules_struct.setlenguard("C15"), rules_struct.freelist],
        "explanation": "R-REUSE: (a) every append path of allocate_sector / allocate_mini_sector / allocate_dir_entry is dominated by the 'nothing free' outcome of the free-list query (guard atoms); (b) every free feeds the list (free_sector => set_fat(FREE) + free_sectors.push on all Ok paths; likewise mini sectors; free_chain frees each visited sector); (c) validate rebuilds both lists from exactly the FREE cells. "
                       "R-CAP: the branch guarding each extension of the mini-stream chain and of the MiniFAT chain has the chain's physical length (Chain::len / num_sectors) in its condition, not only the logical length that shrinks on release. R-FREEOLD: wherever a stream that already has a chain is moved to a freshly started chain (mini<->regular migration), and before a removed stream's entry goes away, the old chain is freed first on every path.",
        "not_decided": "that file size is constant from the second repetition of any net-zero cycle (values of the free lists over histories); LIFO order; truncation of the file (the code has none)",
    },
    "C16": {
        "rules": [rules_mode.run, rules_mode.strictlist("C16"), rules_struct.sibflag("C16"), rules_mode.rawfield("C16"), rules_mode.builder("C16"), rules_mode.normapplied("C16"), rules_struct.wholetable("C16"), rules_struct.repairfirst("C16"), rules_struct.hdrcountuse("C16"), rules_struct.storagefields("C16"), rules_mode.strictalways("C16"), rules_det.idwidth("C16")],
        "explanation": "R-MODE over all is_strict() tests (19 call sites): S - the region of the CFG dominated by the strict edge of each mode test contains no store, no mutating call and no Ok return, only refusals of kind InvalidData; "
                       "P/N - the region dominated by the permissive edge is either a listed normaliser that only pops/truncates its listed vector (DIFAT zero-stripping, FAT tail stripping, MiniFAT truncation) or a canonicalising assignment nested inside a documented deviation test; no refusal is made only in permissive mode. "
                       "Deviation inventory: each of the 18 documented deviations is located (regexes over guard atoms) as a refusal with is_strict() on its path (or, for the zero-padded FAT, an unconditional refusal pre-empted by the permissive normaliser).",
        "not_decided": "that the permissive view of a damaged file equals the undamaged file's content (values); deviations combined with foreign layouts",
    },
    "C17": {
        "rules": [rules_det.tsident("C17"), rules_follow.make("R-SETTER", "C17"), rules_entry.gstore, rules_det.narrow, rules_layout.run("C17"), rules_entry.moveall, rules_entry.getter("C17"), rules_entry.closurestore("C17"), rules_api.errkind("C17"), rules_det.epochcentre("C17"), rules_entry.ctorvalues("C17"), rules_entry.setterpure("C17"), rules_entry.setterkind("C17"), rules_io.refusalkept("C17"), rules_det.saturate("C17"), rules_entry.keeptimes("C17")],
        "explanation": "R-SETTER: every metadata setter reaches with_dir_entry_mut on its Ok path, which forwards the same id down to Directory::with_dir_entry_mut, which writes the same slot back (write_dir_entry(same id) -> seek(128*id) + dir_entries[id].write_to). "
                       "R-GSTORE: streams never receive a CLSID or timestamps (every store to those fields is dominated by a test excluding ObjType::Stream). "
                       "R-NARROW: the FILETIME<->SystemTime conversion is total and saturating (no narrowing integer cast unless interval evaluation shows it fits, no unchecked SystemTime/Duration arithmetic, no unwrap of a fallible time operation). R-LAYOUT: the directory-entry serialiser and parser agree field for field (clsid, state bits, both timestamps at the same offsets and widths). R-ERRKIND rows: CLSID on a stream is InvalidInput, setters on a missing path are NotFound.",
        "not_decided": "exact values returned; 100 ns rounding direction; saturation limits; clock bracketing of a new storage's times (values)",
    },
    "C18": {
        "rules": [rules_det.noerrafter("C18"), rules_det.short, rules_det.seekfirst, rules_det.nondet, rules_io.poskeep, rules_det.kindkeep("C18"), rules_det.trunc("C18"), rules_follow.make("R-RETRY", "C18"), rules_io.writeat("C18"), rules_io.flushfirst, rules_sink.sink("read"), rules_det.written("C18")],
        "explanation": "R-SHORT: each of the short-count primitives (Read::read/Write::write call sites) returns its count to the caller and advances its position by exactly that count, so results cannot depend on how the backend splits transfers; everything else uses exact-transfer forms. "
                       "R-SEEKFIRST: raw backend I/O occurs only in Sector methods, the absolute-seek helpers and two listed sequential constructors; a Sector is only built after a successful seek(SeekFrom::Start). "
                       "R-NONDET: clock reads confined to Timestamp::now (from insert_dir_entry) and touch; no iteration over randomly seeded hash containers; no pointer-to-integer casts.",
        "not_decided": "equality of outcomes between a real file and memory, between buffer sizes, between V3 and V4 (values); Interrupted handling inside std",
    },
    "C14": {
        "rules": [rules_lock.run],
        "explanation": "R-LOCK: all shared state is behind one RwLock<MiniAllocator<F>>; with a single lock and terminating critical sections, "
                       "no deadlock <=> no thread requests the lock while holding a guard on it. Guard live ranges are computed from MIR "
                       "(acquiring call .. Drop terminator / move-out) by forward dataflow; no call made under a live guard may have lock_read/lock_write "
                       "in its transitive effect set (call graph incl. closures, dyn Flusher targets, Drop impls). Also: single lock, no other blocking primitive, "
                       "guards never stored in fields / public signatures / by-value captures, no interior mutability in state types.",
        "not_decided": "what a sequence of read-only calls observes across several acquisitions; backends that call back into the same CompoundFile; termination of critical sections (C05/C11)",
    },
}


# rules added after the seeded-change rounds (DESIGN.md section 9.2): what each decides, appended to the explanations
_ADDED = {
    "C02": " R-FRESHID: two sector ids taken as fat.len()/minifat.len() are separated by the growth of the table caused by entering the first. R-HDRCOUNT: whoever changes the length of the MiniFAT chain or the directory chain rewrites the header's sector count on every Ok path.",
    "C03": " R-CUTOFF: all tests against MINI_STREAM_CUTOFF have the same sense. R-UNIT: compare_names orders by length in UTF-16 code units. R-FRESHID, R-HDRCOUNT as for C02. R-FREEOLD: a stream that already has a chain gets a fresh one only after the old one was freed (no allocated sector without an owner).",
    "C06": " R-POSKEEP: position = window offset + cursor is kept by every window restart outside seek/set_len; set_len stores min(position, size); the length shrinks only in set_len and a length change re-establishes the window.",
    "C07": " R-CUTOFF (a stream of exactly CUTOFF bytes is never treated as the other kind, whose start id would address another stream's sectors). R-MOVEALL: an entry carried to another slot travels whole. R-UNLINK: a slot is released only for a node whose two sibling links were examined since it was named. R-BLANKOWN: blank entries enter the table only in free_dir_entry/allocate_dir_entry.",
    "C08": " The zero-fill helper itself can return Ok without writing zeros only when the range is tested empty. R-POSKEEP: a handle's buffered window does not survive a length change (stale bytes beyond the new end would reappear after a later grow).",
    "C09": " R-UNIT: shortlex length key in UTF-16 units. R-UNLINK/R-BLANKOWN: removal never cuts other names out of the sibling tree.",
    "C11": " R-FREELIST: after the cached FAT/MiniFAT is shortened the matching free list is filtered or rebuilt (allocate_* index the table with free-list ids unchecked).",
    "C12": " R-ERRDISC: every way out of an Err arm reports the error or retries the call. R-NOERRAFTER: no error exit after a Read::read/Write::write implementation advanced its position.",
    "C13": " R-WTORDER: FAT/MiniFAT cells and the MiniFAT start are written to the file before memory is updated (a failed write must be repeated by the retry). R-RETRY: the half-done additions of append_fat_sector are undone on its error exits; the mini stream grows before the MiniFAT gains an entry (defects D16/D17, repaired).",
    "C15": " R-CAP also checks the unit of the capacity test (4-byte MiniFAT entries; MINI_SECTOR_LEN for the mini stream). R-REUSE.consult requires a scan of the whole entry table before a directory slot is appended.",
    "C16": " R-MODE.I / R-MODE.N: data that a tolerated deviation discards (the root entry's stored name, the surplus of an over-long MiniFAT) is not examined by a mode-independent refusal before it is discarded.",
    "C17": " R-MOVEALL: when remove_dir_entry moves an entry to another slot it keeps its own CLSID, state bits and times.",
    "C18": " R-POSKEEP: the outcome of a window roll-over does not depend on where the window happened to be (buffer size). R-KINDKEEP: backend errors are not re-wrapped without their kind, so Interrupted reaches std's retry loops.",
}
for _pid, _txt in _ADDED.items():
    PROPS[_pid]["explanation"] = PROPS[_pid]["explanation"] + _txt

_ADDED2 = {
    "C02": " R-PARENT: every insertion of a directory entry is dominated by a test that the parent is not a stream.",
    "C03": " R-PARENT (no child below a stream). R-INITKIND: the directory chain is always handled with SectorInit::Dir, the MiniFAT chain with SectorInit::Fat.",
    "C05": " R-CHAINPOS: every position stored by Chain/MiniChain/Sector::seek is dominated by position <= len(self). Function-wide audited sink entries cover only the sink kinds they were written for.",
    "C06": " R-CUTOFF: every test against MINI_STREAM_CUTOFF has the same sense.",
    "C07": " R-LINKKEEP: links are conserved by tree surgery (an overwritten link was tested empty, is the released node, or was handed on). R-MARK / R-FRESHID: a new FAT/DIFAT sector is entered in the FAT under its own id before another id is taken (a sector handed to two owners lets one handle write into another stream).",
    "C08": " R-SHORT: the zero initialiser uses exact-transfer forms. R-CEIL: no sector count is floor(x/y)+1 without a remainder test (a surplus sector keeps its old bytes across shrink and grow).",
    "C09": " R-LINKKEEP (removal keeps every other name in the tree). R-FOLD: the folding function never returns its argument unfolded. R-NARROW(names): no truncating cast on name code units.",
    "C10": " R-DEEPREFUSAL: a NotFound/AlreadyExists raised below the API layer is not preceded by an effect anywhere on the call chain down to it.",
    "C11": " R-SLOTRESET: a slot taken from allocate_dir_entry is overwritten whole before it is linked. R-CHAINPOS as for C05.",
    "C12": " R-SEEKFIRST: a Sector is only built after a successful backend seek (no cached-position shortcut that a failed seek could leave stale).",
    "C13": " R-SETTER rows: with_dir_entry_mut rewrites the whole entry on every Ok path (a retried write-back repairs an entry whose first write failed).",
    "C14": " R-LOCK.5: the shared lock is never probed with try_read/try_write/is_poisoned.",
    "C15": " R-KILLREAD: no chain link is read from a cell after it was overwritten with END_OF_CHAIN/FREE. R-RAWFIELD: the parsers return the chain starts the file records (a start forgotten at open leaks the chain).",
    "C16": " R-SIBFLAG: the red-parent flag is pushed identically for both siblings. R-RAWFIELD: parsed fields are replaced only in the listed normalisations.",
    "C17": " R-GETTER: Entry::new copies field for field and every accessor depends on exactly its own field.",
    "C18": " R-TRUNC: a file opened with create(true) for the creation code is opened with truncate(true).",
}
for _pid, _txt in _ADDED2.items():
    PROPS[_pid]["explanation"] = PROPS[_pid]["explanation"] + _txt

_ADDED3 = {
    "C02": " R-HDRV3: header word 40 is rewritten in place only on a branch that established version 4 (R-HDR / R-HDRCOUNT accept the helper or the rewrite itself, and exempt the version-3 branch).",
    "C03": " R-HDRV3 as for C02. R-LINKKEEP, R-UNLINK, R-BLANKOWN, R-KILLREAD, R-CEIL, R-SLOTRESET also run for this property (a dropped link, a stale cell read or a miscounted chain makes the image inconsistent).",
    "C05": " R-LOCK.2: no function requests the lock while a guard it acquired is still live (a self-deadlock is a hang in every schedule).",
    "C06": " R-ZERO and R-CEIL also run for this property (bytes beyond the old end read as zero; no surplus sector).",
    "C07": " R-FIELDOWN: an entry's start sector and length are stored only by the stream layer and the mini allocator, which move the chain with them.",
    "C09": " R-NAMELEN: the reader's limit on the name-length field is not below what the writer stores for a name of MAX_NAME_LEN units.",
    "C11": " R-LOCK.2 as for C05. R-NAMEINV: DirEntry::read_from returns Ok only with a name that passed validate_name or is the constant root name (write_to asserts it).",
    "C13": " R-CLOSURESTORE: below the API layer no constant is stored as an entry's start sector or length in the middle of an operation.",
    "C15": " R-DIRLEN: the entry table is never shortened. R-LINKKEEP and R-CEIL also run for this property.",
    "C16": " R-MODE.X: no refusal outside is_strict() tests the datum of a documented tolerated deviation in a way that overlaps the deviation.",
    "C17": " R-CLOSURESTORE: closures passed to with_(root_)dir_entry_mut never replace the whole entry.",
}
for _pid, _txt in _ADDED3.items():
    PROPS[_pid]["explanation"] = PROPS[_pid]["explanation"] + _txt

_ADDED4 = {
    "C02": " R-GSTORE also runs for this property (a stamped stream does not reopen: strict refuses it, permissive zeroes the time).",
    "C03": " R-BEGINGUARD: the MiniFAT chain / mini-stream chain is begun only where its start field was found to be END_OF_CHAIN. R-FREEREBUILD: FAT cells repaired at open are followed by the rebuild of the free list.",
    "C06": " R-BUFFULL: the window buffer refuses a write only when it has no room at all (otherwise Stream::write returns Ok(0) for a slice longer than the buffer).",
    "C07": " R-FREEREBUILD as for C03 (a live FAT sector on the free list is handed to a stream).",
    "C09": " R-NORMBODY: the normaliser returns only the vector it fills from Path::components(), and pushes only Component::Normal payloads. R-NAMELIMIT: validate_name measures names in UTF-16 code units.",
    "C10": " R-NAMELIMIT as for C09 (a name that passes validation but does not fit the 32-unit field is refused only when the entry is serialised, after it was allocated and linked).",
    "C12": " R-POSATOMIC: after a Stream method moved the position no error exit (and no fallible call whose Result is handed back) is reachable.",
    "C13": " R-ERRDISC also treats a Result that is only probed with is_ok()/is_err() as discarded. R-RETRY rows for Chain::write / MiniChain::write (see C18).",
    "C14": " R-LOCK.6: in operations reachable from stream handles the write lock is never taken inside a loop (one operation, one critical section per mutation).",
    "C15": " R-BEGINGUARD, R-FREEREBUILD as for C03. R-TRIMLOOP: the trimming of trailing free MiniFAT entries in free_mini_sector is a loop.",
    "C16": " R-BUILDER: every OpenOptions method that returns OpenOptions hands on the validation mode it received (or sets Strict).",
    "C17": " R-SETTER rows for the public setters: Ok is returned only through the lookup + write-through helper (or where is_stream/exists/is_storage answered true).",
    "C18": " R-RETRY rows: a sector allocated in Chain::write / MiniChain::write is recorded in the chain's id list before anything else can fail (an Interrupted write is repeated by write_all).",
}
for _pid, _txt in _ADDED4.items():
    PROPS[_pid]["explanation"] = PROPS[_pid]["explanation"] + _txt

_ADDED5 = {
    "C02": " R-NAMELEN (writer side): DirEntry::write_to stores the name length from the number of UTF-16 code units written.",
    "C03": " R-NAMELEN as for C02. R-CEIL also reports `unit - x % unit` used as a count without a remainder test. R-DETACH: a node adopts a subtree only after it was taken out of it. R-FREEFIRST: remove_dir_entry is only reached behind the release of the stream's chain.",
    "C06": " R-WRITEAT: the flushed window is written at its own offset in every branch of write_data_to_stream.",
    "C08": " R-CEIL also reports `x | (unit - 1)` (the last offset inside the unit) used as an exclusive end.",
    "C09": " R-LOOKUPEXIT: the name lookup answers None only when its walk reached NO_STREAM. R-DETACH as for C03.",
    "C10": " R-DEEPREFUSAL also covers InvalidInput refusals of a caller-supplied argument raised below the API layer (they must precede every file-writing effect on the call chain; a refusal the caller has already made itself is discharged).",
    "C11": " R-DETACH as for C03 (a cycle in the sibling tree makes lookups and listings spin).",
    "C13": " R-DIRTY also covers a dirty marker that is set to None directly: nothing may fail after it.",
    "C15": " R-FREEFIRST as for C03 (an overwrite or removal that skips the release orphans the old contents, every time).",
    "C16": " R-NORMALL: each type-dependent normalisation of DirEntry::read_from is applied on every path of that object type (no `else if` chaining of independent fix-ups).",
    "C17": " R-EPOCH: the timestamp conversion measures from UNIX_EPOCH, so truncation rounds toward the Unix epoch.",
    "C18": " R-WRITEAT as for C06 (a migration that carries over a different number of bytes gives different contents for different buffer sizes).",
}
for _pid, _txt in _ADDED5.items():
    PROPS[_pid]["explanation"] = PROPS[_pid]["explanation"] + _txt

_ADDED6 = {
    "C02": " R-LAYOUT also runs for this property (reader and writer agree field for field). R-WT counts, for a pushed element, only a write of that element (not of the table's length or of an expression that mentions the table).",
    "C03": " R-UNITS: every comparison, sum, difference and min/max whose operands have a derivable dimension (bytes, sectors, mini sectors, directory entries, table cells) has the same dimension on both sides. R-HANDON, R-SLOTID, R-KEEPCOUNT (see C07, C08).",
    "C05": " R-UNITS as for C03. R-CTOR rows: the pointee set of the validators records the very value it tested; the cached MiniFAT is no longer than the mini stream after validate (I-MINICAP). The bounds of chain reads are discharged only behind a guard on the REMAINING length.",
    "C06": " R-SINK(read) also runs for this property (a stream operation that panics is not the Cursor behaviour). R-INITKIND: the stream layer opens data chains with SectorInit::Zero.",
    "C07": " R-HANDON: with one subtree empty and the other not, removal hands on the non-empty one. R-SLOTID: allocate_dir_entry returns the index it found (or the table length), no arithmetic on it.",
    "C08": " R-INITKIND as for C06. R-KEEPCOUNT: a chain shrunk to N sectors is cut after index N - 1. R-ZERO also reports a zero count with a constant taken off or put on.",
    "C09": " R-HANDON as for C07. The pre-validation loop of a compound creation must walk the whole name list (no take/skip/sub-slice).",
    "C10": " R-HANDON as for C07 (a removal that drops a subtree makes the rest of remove_storage_all fail half-way).",
    "C11": " R-UNITS and the I-MINICAP row as for C05.",
    "C13": " R-RETRY rows: a (mini) sector enters the free list only after its FAT / MiniFAT cell was written FREE.",
    "C15": " R-UNITS as for C03. R-BLANK and R-KEEPCOUNT also run for this property.",
    "C17": " R-GSTORE: the creation stamp is taken on a branch that new storages take.",
    "C18": " R-FLUSHFIRST also runs for this property (a window moved without writing it back loses bytes only when the window is smaller than the stream, i.e. depending on max_buffer_size).",
}
for _pid, _txt in _ADDED6.items():
    PROPS[_pid]["explanation"] = PROPS[_pid]["explanation"] + _txt

_ADDED7 = {
    "C02": " R-CTORVAL: DirEntry::unallocated() / ::new() have the field values of the format. R-TW: an in-place file patch of a link is mirrored in the cached entry.",
    "C03": " R-FREEALL: whoever gives up a chain (or the rest of one) releases it through free_chain / free_mini_chain. R-CTORVAL (see C02). R-CEIL also reports (x + y) / y.",
    "C05": " R-WHOLE: the validators walk their tables whole (no skip / take / sub-slice). The loop-detection sets of open_internal record the id they tested.",
    "C06": " R-SEEKEND: no seek implementation refuses the position that equals the length. R-SEEKBOUND: every new position Stream::seek computes is bounded by total_len through a comparison of the right operands. R-UNITS also runs for this property.",
    "C07": " R-TW as for C02 (a link patched only in the file leaves the live tree pointing at a slot that is released). R-PARENT also runs for this property.",
    "C08": " R-UNITS also runs for this property.",
    "C09": " R-NAMELIMIT also checks the limit itself: names of up to exactly MAX_NAME_LEN units are accepted. R-TW as for C02.",
    "C10": " R-SEEKBOUND as for C06 (a seek that should be refused returns Ok and flushes). R-PARENT and R-UNIT also run for this property.",
    "C11": " R-WHOLE as for C05. R-PARENT also runs for this property (a child below a stream trips an assertion when the stream is removed).",
    "C13": " R-WTORDER also covers the link stores of insert_dir_entry (file first). R-SEEKEND: a window that starts exactly at the end of a chain can be written back.",
    "C15": " R-FREEALL as for C03.",
    "C16": " R-MODE.D also checks the RELATION of each deviation test (`!=` must not become `<`). R-WHOLE as for C05. R-BUILDER also checks that open / open_rw / create delegate with `self` and that open_with passes self.validation.",
    "C17": " R-SETVAL: no setter closure stores a value computed from the field's old content. R-CTORVAL (see C02): DirEntry::new() sets both times from its timestamp argument.",
    "C18": " R-SINK(read) also runs for this property (a seek before the buffered window underflows only when the window has moved, i.e. for small buffer sizes).",
}
for _pid, _txt in _ADDED7.items():
    PROPS[_pid]["explanation"] = PROPS[_pid]["explanation"] + _txt


_ADDED8 = {
    "C02": " R-FMTCONST: the per-version format constants (sector shift, version number, stream-length mask) that both the writer and the reader compute positions from are the ones MS-CFB fixes (rules/fmtconst.json). R-WHOLE also covers the counted loops of the parser and of the initialisers (109 header DIFAT words, the entries of a sector): their bounds are the format constants, not a shortened range. R-MARK / R-CTOR rows for the cell values and the pointee sets are also decided here. R-TW also covers whole-entry rewrites.",
    "C03": " R-CUTTAIL: free_chain_after / free_mini_chain_after terminate the kept part and release the tail on every Ok return. R-FMTCONST, R-WHOLE (see C02). R-HANDLEKIND: stream handles are made only for entries tested to be streams. R-FOLD also covers the lower-case fold and the transform applied to the table value.",
    "C05": " R-WHOLE parser clause (see C02).",
    "C08": " R-CUTTAIL (see C03): a shrink that kept the tail linked would let a later grow re-expose the old bytes without allocating. R-ZERO also reports a zero-fill whose count or end is adjusted (rounded down, one less) relative to the range it must cover.",
    "C09": " R-NORMUSE: every result of name_chain_from_path is propagated or matched, never defaulted away; the chain is shortened only by pop / split_last. R-FOLD, R-NORMBODY (iterator exhaustion) and R-NAMELIMIT (adaptors on the name itself are not limits) extended.",
    "C10": " R-NORMUSE (see C09). R-HANDLEKIND (see C03).",
    "C11": " R-HANDLEKIND, R-WHOLE parser clause.",
    "C15": " R-CUTTAIL (see C03). R-TW whole-entry clause.",
    "C16": " R-WHOLE parser clause: strict validation sees every word the permissive parser reads.",
    "C17": " R-NARROW also decides the overflow sinks of the timestamp module (the conversion to and from FILETIME ticks saturates or checks, never wraps). R-GSTORE: the stamp is applied to storages but not to the root where the format excludes it. R-CTORVAL includes the colour field.",
}
for _pid, _txt in _ADDED8.items():
    PROPS[_pid]["explanation"] = PROPS[_pid]["explanation"] + _txt


_ADDED9 = {
    "C02": " R-STALECHAIN: no sector count / length is read from a chain object after a set_len on it that may have cut the chain (the object keeps listing the old sectors). R-SELFLINK: a link word is never stored in the sector it names (`list.push(new); list[len - 1]` reads the new sector back). R-MODE.U: every refusal reached only under is_strict() is one of the documented deviations of rules/mode.json - a new strict-only condition is one the library's own images are not known to meet.",
    "C03": " R-STALECHAIN, R-SELFLINK (see C02). R-ALLBLACK: no store of a colour other than Black into an allocated entry (the library never rotates or recolours, so an all-black tree is the only red-black tree it can maintain).",
    "C06": " R-DIRTYRANGE: the write-back covers the whole window, or starts at a recorded bound that is updated from its own previous value (a running minimum). R-SETLENNOOP: Stream::set_len skips the resize only behind `size == self.total_len`.",
    "C08": " R-ZERO also reports a zero fill whose end is capped by anything other than the new length and the sector boundary above the old one.",
    "C09": " R-ONEORDER: every switch on an Ordering in the directory's tree walks tests the result of compare_names. R-TREEID: in the directory's tree code every entry whose links are read or written is reached through the walk of the same call, not through an id remembered from an earlier one.",
    "C11": " R-SINK: an assertion is covered by the audit of its function only if the same thing was asserted when the audit was made (rules/sink_keys.json `panics`: the fields, constants and measures its own condition mentions).",
    "C13": " R-LOCK.2 also runs here: a write-back error path that takes the lock it still holds never reports the error.",
    "C16": " R-MODE.U (see C02).",
    "C17": " R-TSIDENT: Timestamp::read_from returns Timestamp(word read) on every Ok path, Timestamp::write_to writes the word held.",
}
for _pid, _txt in _ADDED9.items():
    PROPS[_pid]["explanation"] = PROPS[_pid]["explanation"] + _txt


_ADDED10 = {
    "C02": " R-OWN also runs for this property (a sector claimed outside the allocation protocol is handed to two chains, and the image no longer reopens). R-DIFATCAP: wherever a DIFAT index beyond the header's 109 entries is split into (DIFAT sector, slot), the divisor evaluates to 127 / 1023 entries per 512 / 4096-byte sector - the last word of a DIFAT sector is its link.",
    "C03": " R-DIFATCAP (see C02). R-LINKEND: the FAT / MiniFAT cell that receives the link to a newly allocated sector was found to hold END_OF_CHAIN in the same function, or every caller passes the last id of the chain's own list, read at the call.",
    "C05": " R-NOCHILD: every Ok return of DirEntry::read_from for a stream lies behind `child == NO_STREAM`, in every validation mode (the lookups read .child of whatever entry a path component resolved to). R-TERM: a COUNTER certificate is not accepted when its bound is a count the file states (a header word, a freshly read number) without a min: such a count bounds nothing by the size of the input. Overflow checks and negations that no specific pattern discharges are tried with a signed interval evaluation over all integer widths (intervals.py), whose every unknown falls back to the range of the value's type.",
    "C09": " R-UNIT, order key: names of equal length are not ordered by comparing their chars (scalar values) - MS-CFB orders by upper-cased UTF-16 code units, and a surrogate pair sorts before U+E000..U+FFFF (defect D22, repaired). R-FOLD, ASCII clause: an ASCII-only fold is applied to a char in the folding functions only behind a test that the char is ASCII.",
    "C11": " R-LENBOUND: every Ok return of DirEntry::read_from for a Stream or Root entry lies behind a comparison bounding the stored length by MAX_REGULAR_SECTOR x sector length (invariant I-LENBOUND, on which the position arithmetic of a handle rests; defect D14, repaired). R-NOCHILD (see C05). The audited entry that discharged the `entry is a stream` assertions of the stream layer as a caller contract was wrong (a handle can outlive its stream: defect D23, repaired) and is gone.",
    "C13": " R-PREDWALK: the predecessor search of remove_dir_entry also stops at the removed entry's own right link - a removal repeated after a failed attempt must not walk into the subtree the first attempt already moved (defect D21b: disk-first order, R-WTORDER, is necessary but was not sufficient).",
    "C15": " R-LINKEND (see C03): a chain extended from a sector that is not its last one orphans everything behind it, once per call.",
    "C16": " R-REPAIRFIRST: in Allocator::validate no store that repairs a FAT / DIFAT sector marker is reachable after the pointee bookkeeping has begun (the link checks must judge the repaired table, or a tolerated file is refused).",
    "C17": " Narrowing casts and overflow checks of the conversions are also tried with the signed interval evaluation (a conversion rewritten with 128-bit arithmetic is discharged by arithmetic; a truncating `(as_nanos() / 100) as u64` is still reported).",
}
for _pid, _txt in _ADDED10.items():
    PROPS[_pid]["explanation"] = PROPS[_pid]["explanation"] + _txt


_ADDED11 = {
    "C06": " R-SINK: since the repair of D12 the handle takes the directory's length after a write-back; the window offset never exceeds the length (declared field relation, maintained by R-POSKEEP / R-SEEKBOUND).",
    "C08": " R-BRANCHUNIT: in the stream layer no arithmetic on a branch that established `length >= MINI_STREAM_CUTOFF` measures with MINI_SECTOR_LEN, and none on the other branch with the sector length (a grown regular stream zero-filled only to the next 64 bytes shows old data in the rest of its sector). R-KEEPCOUNT also reports a cut guarded by a value derived from the list's length (`N < len - 1`).",
    "C09": " R-DOTDOT: once names.pop() has found the chain empty, no Ok return of name_chain_from_path is reachable - a `..` that leaves the root is refused for absolute paths too.",
    "C10": " R-DOTDOT (see C09): an escaping path that resolves inside the root makes a call that should be refused change the file.",
    "C11": " R-STALELEN: in the parsing code no value derived from v.len() is used after v was shortened (the FAT padding bound taken before the DIFAT's trailing FREE entries are stripped). R-TREETYPES: Directory::validate reads the links of an entry only where its type was found to be Root, Storage or Stream (a linked Unallocated entry would be handed out again by allocate_dir_entry). Three audited sink entries were made specific (a bare `n - 1`, an assertion whose guard was dropped). The last recorded finding, D12, is repaired: no KNOWN-FINDING line is printed any more.",
    "C12": " R-REFILLCAP: in StreamBuffer::refill_with no store to the filled length is passed on the way to the error exit of the fill callback (a failed refill must not leave bytes marked as read).",
    "C13": " R-POSATOMIC also runs for this property (a set_len that updates the handle before the resize has succeeded leaves it out of step after a fault).",
    "C15": " R-CUTOFF also runs for this property (a stream of exactly 4096 bytes classified as a mini stream on removal never releases its FAT chain).",
    "C16": " R-HDRCOUNTUSE: outside the header's own reader and writer the header's four sector counts are only compared - they never enter arithmetic, a capacity or a loop bound (they are a documented tolerated deviation: a wrong count must not change what permissive open reads).",
    "C17": " R-NARROW also reports wrapping / overflowing / unchecked arithmetic in the conversions.",
    "C18": " R-NOERRAFTER also runs for this property and treats a fallible call whose Result is returned as the function's own result as an error exit (a Write::write that advances the position by the requested length and then returns the inner write's short count).",
}
for _pid, _txt in _ADDED11.items():
    PROPS[_pid]["explanation"] = PROPS[_pid]["explanation"] + _txt

_ADDED12 = {
    "C02": " R-DIFATLINK: on the Difat arm of SectorInit::initialize END_OF_CHAIN reaches the sector through one write outside every loop (as part of a repeated 512-byte pattern it lands in every 128th slot of a 4096-byte sector and the image stops reopening). R-FRESHID also requires that one fat.len() read feeds at most one init_sector call (a length hoisted above the first push names two new sectors).",
    "C03": " R-GROWCOUNT: in Chain / MiniChain no value of self.sector_ids.len() is used after the list was changed on the way from where the length was taken, except to roll the list back (a count taken before the first push makes a chain grown from empty one sector longer than its length covers). R-DIFATLINK (see C02).",
    "C08": " R-KEEPCOUNT reads the cut index also from `self.sector_ids[..N].last()` (index N - 1) and `[..=N].last()` (index N).",
    "C09": " R-REFUSALKEPT: in functions that return io::Result no io::Result of an effect-free crate function (lookups, the path normaliser, the name validation, walk_storage) is dropped, unwrapped, discarded through ok / unwrap_or* / is_ok, or matched / mapped with an Err arm that goes on to an Ok result - the refusal of an escaping or missing path reaches the caller. R-NORMBODY also requires that a component whose to_str() is None ends the normaliser with a refusal (skipped, the path names its parent).",
    "C10": " R-ALLVALID: create_storage_all validates every component of the path (a whole-collection iteration of the name chain whose refusal is propagated; an index range only in the plain form 0..names.len()) before the first call that can change the file. R-NORMBODY also runs for this property (a skipped non-UTF-8 component makes a call that must be refused act on the parent).",
    "C12": " R-ERRDISC also reports a closure that returns the io::Result of a backend call and is handed to flat_map (or map + flatten): Result's IntoIterator yields nothing for Err, so a read failure while loading the FAT is dropped and every later entry shifts down.",
    "C13": " R-FREELIST also runs for this property, with an error-exit clause: a `?` between shortening the FAT / MiniFAT and filtering the free list leaves a stale id behind for the next call (not applied to functions only constructors call: the object is never handed out). R-ERRDISC also judges the residual of a `?` inside an inlined helper whose result the caller only probes with is_err().",
    "C15": " R-GROWCOUNT (see C03): a surplus sector no length covers is never released by a later shrink to the covered count.",
    "C16": " R-STORAGEFIELDS: on the paths of DirEntry::read_from that a Storage entry takes in permissive mode no comparison of a value computed from the start-sector / size words separates acceptance from refusal (garbage there is a documented tolerated deviation). R-STRICTALWAYS: the comparison behind each header-count deviation (rows marked `always` in rules/mode.json) lies on every strict-mode path from the entry of open_internal to its Ok return.",
    "C17": " R-SETTERKIND: inside the public metadata setters, their closures and the helpers only they call, every object-type test is against ObjType::Stream (storages and the root are never told apart). R-SATURATE: in the to-timestamp conversions a checked addition / multiplication falls back to u64::MAX and a checked subtraction to 0, nothing else. R-REFUSALKEPT (see C09): a setter on a missing path answers NotFound.",
}
for _pid, _txt in _ADDED12.items():
    PROPS[_pid]["explanation"] = PROPS[_pid]["explanation"] + _txt

_ADDED13 = {
    "C02": " R-STATESET: no state type has more fields written after construction than the audited set (rules/stateset.json; by count per type): a cache is state no write-through rule ties to the file. R-STATECELL: no state type holds a cell with interior mutability or a second lock. R-IDWIDTH: in the allocators, the directory, the chain handles and the sector layer no cast narrows an id or index to fewer than 32 bits unless intervals show that it fits. R-NAMELEN's writer clause also requires the zero name length of an unallocated entry, and only of one (defect D24).",
    "C03": " R-KINDGUARD: every open / free of a stream's chain as a mini chain lies behind `len < MINI_STREAM_CUTOFF` (the constant itself), every open / free as a regular chain behind `len >= MINI_STREAM_CUTOFF`, with the length of the entry the start sector came from, an entry known to be a stream. R-STATESET (see C02). R-NAMELEN's blank-entry clause (D24).",
    "C06": " R-KINDGUARD (see C03). R-STATESET (see C02). R-SETLENGUARD: no set_len call of the stream layer lies behind a comparison of quotients or remainders of lengths. R-WRITTEN: every Ok(n) of the Write::write impls of Sector, Chain and MiniChain carries the count a write call of the layer below reported, or 0.",
    "C07": " R-KINDGUARD (see C03; its is-a-stream clause keeps a handle that outlived its stream from writing through a storage's entry). R-STATESET (see C02).",
    "C08": " R-MINIFILL: zeros copied into a mini chain by the stream layer run to the new length (mini sectors are handed out as they are). R-WRITTEN (see C06).",
    "C09": " R-ONEORDER no longer tolerates an integer comparison of the lengths of the names being ordered (a byte length is not the UTF-16 length compare_names orders by).",
    "C15": " R-KINDGUARD (see C03). R-SETLENGUARD (see C06): a surplus sector kept by a skipped set_len is never released.",
    "C16": " R-IDWIDTH (see C02).",
    "C17": " R-KEEPTIMES: on the paths of DirEntry::read_from that a Storage or Root entry takes no constant replaces the CLSID or the times read from the file.",
    "C18": " R-WRITTEN (see C06).",
}
for _pid, _txt in _ADDED13.items():
    PROPS[_pid]["explanation"] = PROPS[_pid]["explanation"] + _txt

_ADDED14 = {
    "C07": " R-ENTRYKEEP: Directory::with_dir_entry_mut / with_root_dir_entry_mut never assign a whole DirEntry into the table (no roll-back to an entry whose chain the caller has already freed). R-WBENTRY also runs for this property (an elided entry write leaves the file's entry pointing at a chain that another stream is given after a retry).",
    "C16": " R-WHOLE also requires that a table read from a chain (the MiniFAT) is read as long as the chain is, not capped by what the root entry says. A deviation row names the free marker as the head of the DIFAT chain in the header (defect D25): refused under strict validation, normalised only under permissive validation.",
}
for _pid, _txt in _ADDED14.items():
    PROPS[_pid]["explanation"] = PROPS[_pid]["explanation"] + _txt

_ADDED15 = {
    "C08": " R-SURPLUS: if the zero fill of a regular chain stops at the end of the old last sector, no write-back may fail between appending sectors to the chain and updating the entry's length (defect D26, repaired by bc7ee1f: the regular fill now clears the whole gained range; before, a growing set_len after such a failure exposed the stream's own discarded bytes). R-ZERO also requires that the length store does not precede the zero fill.",
    "C11": " R-POSKEEP also runs for this property: the audited discharge of `total_len - position` in the handle's arithmetic rests on position <= total_len, which R-POSKEEP maintains (a length re-read after a failed resize without clamping the position makes the next relative seek trip the assertion).",
    "C15": " R-FREELIST also runs for this property (a free list that is cut instead of filtered after the MiniFAT was trimmed forgets released mini sectors that sit behind the trimmed ones). R-DIRLEN also covers the vector that open_internal hands to Directory::new: popping trailing unallocated entries at load time makes allocate_dir_entry extend a chain that has room.",
}
for _pid, _txt in _ADDED15.items():
    PROPS[_pid]["explanation"] = PROPS[_pid]["explanation"] + _txt

_ADDED16 = {
    "C08": " AS OF THE REPAIR OF D26: the zero fill clears the whole gained range of a mini chain and of a regular chain alike. Clauses about what sectors hold when they are kept after a shrink, recycled or handed out (R-INIT, R-INITKIND, R-KEEPCOUNT, R-CEIL, R-CUTTAIL, named above for the history of this check) are therefore no longer necessary conditions of this property and no longer run for it; they run for C02, C03, C06 and C15. What this check decides today: R-ZERO (fill exists, is controlled by new > old only, lies before the length store and not after it), R-MINIFILL and R-SURPLUS (neither fill is capped at a sector boundary while a write-back can leave surplus sectors), R-BRANCHUNIT, R-UNITS, R-POSKEEP, R-SHORT, R-WRITTEN.",
}
for _pid, _txt in _ADDED16.items():
    PROPS[_pid]["explanation"] = PROPS[_pid]["explanation"] + _txt


def explain(path):
    with open(path) as f:
        v = json.load(f)
    print(json.dumps(v, indent=1))
    fn = v.get("function")
    if fn:
        import extract
        from facts import Facts
        fx = Facts(extract.extract(os.environ.get("CFBSA_REPO", "/repo"), "cfb", "dev"))
        if fn in fx.fns:
            print(fx.fns[fn].dump())
    return 0


def thorough_extras(pid):
    import selftest
    return selftest.run(pid)
