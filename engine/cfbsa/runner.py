"""Check runner: facts -> rules of one property -> known-findings filter ->
evidence -> exit code."""
import json
import os
import sys
import time

import extract
from core import VERIF, Ctx, load_tables

REPO = os.environ.get("CFBSA_REPO", "/repo")
CRATE = "cfb"


def load_known():
    p = os.path.join(VERIF, "known_findings.json")
    if not os.path.exists(p):
        return {"findings": [], "fixed": []}
    with open(p) as f:
        return json.load(f)


def run_property(pid, spec, tier="quick", repo=REPO, quiet=False, write_evidence=True):
    t0 = time.time()
    seed = int(os.environ.get("VERIF_SEED", "0") or 0)
    tables = load_tables()
    out = []

    def say(s=""):
        out.append(s)
        if not quiet:
            print(s)
            sys.stdout.flush()

    try:
        facts_path = extract.extract(repo, CRATE, "dev")
    except extract.ExtractError as e:
        say("CHECK-ERROR property=%s: %s" % (pid, e))
        return 2, out, None
    ctx = Ctx(facts_path, tables, name="repo")
    results = []
    for rule in spec["rules"]:
        results.append(rule(ctx))
    profiles = ["dev"]
    if tier == "thorough" and spec.get("release_too", True):
        try:
            rp = extract.extract(repo, CRATE, "release")
            rctx = Ctx(rp, tables, name="repo")
            rctx.profile = "release"
            for rule in spec["rules"]:
                if getattr(rule, "dev_only", False):
                    continue
                r = rule(rctx)
                r.rule = r.rule + "@release"
                results.append(r)
            profiles.append("release")
        except extract.ExtractError as e:
            say("CHECK-ERROR property=%s (release profile): %s" % (pid, e))
            return 2, out, None

    known = load_known()
    known_keys = {}
    for k in known.get("findings", []):
        if k["property"] == pid:
            known_keys[k["key"]] = k
    violations = []
    known_hit = {}
    import re as _re
    for r in results:
        for f in r.findings:
            # closure numbering shifts when an unrelated closure is added: not part of the identity
            f.key = _re.sub(r"\{closure#\d+\}", "{closure}", f.key)
            base_rule_key = f.key
            if base_rule_key in known_keys:
                known_hit.setdefault(base_rule_key, []).append(f)
            else:
                violations.append((r, f))
    floor_fail = []
    for r in results:
        if r.rule.endswith("@release"):
            continue    # floors were counted on the dev profile (debug assertions and overflow checks are sinks there)
        for (n, c, fl) in r.floor_failures(reference=ctx.is_reference_tree()):
            floor_fail.append((r, n, c, fl))

    obligations = sum(r.obligations for r in results)
    discharged = sum(r.discharged for r in results)
    nontrivial = sum(r.nontrivial for r in results)
    say("property %s tier=%s: %d rule(s), %d obligations, %d discharged, %d functions analysed, profiles=%s" % (
        pid, tier, len(results), obligations, discharged, len(ctx.fx.fns), "+".join(profiles)))
    for r in results:
        say("  %-14s obligations=%-4d discharged=%-4d violations=%-3d floors=%s" % (
            r.rule, r.obligations, r.discharged, len(r.findings),
            ", ".join("%s=%d(>=%d)" % (n, c, f) for n, (c, f) in r.floors.items())))
    if not ctx.is_reference_tree():
        for r in results:
            for (n_, c_, fl_) in r.floor_drift():
                if (n_, c_, fl_) not in r.floor_failures(reference=False):
                    say("  note: %s located %d '%s' (reference tree: %d); recorded, not an alarm on a changed tree" % (r.rule, c_, n_, fl_))
    for k, fs in known_hit.items():
        say("KNOWN-FINDING: property=%s %s [%s; %d site(s)]" % (pid, known_keys[k]["what_fails"], k, len(fs)))
    vdir = os.path.join(VERIF, "evidence", "violations")
    if os.path.isdir(vdir):
        for fn_ in os.listdir(vdir):
            if fn_.startswith(pid + "-"):
                os.remove(os.path.join(vdir, fn_))
    code = 0
    n = 0
    for (r, f) in violations:
        n += 1
        os.makedirs(vdir, exist_ok=True)
        vp = os.path.join(vdir, "%s-%d.json" % (pid, n))
        with open(vp, "w") as fh:
            json.dump({"property": pid, **f.to_json()}, fh, indent=1)
        say("  " + str(f))
        say("VIOLATION property=%s replay=%s" % (pid, vp))
        code = 1
    for (r, name, c, fl) in floor_fail:
        n += 1
        os.makedirs(vdir, exist_ok=True)
        vp = os.path.join(vdir, "%s-%d.json" % (pid, n))
        msg = "anchor missing: rule %s matched %d '%s', fewer than the %d confirmed by reading; the rule can no longer see what it decides (fail closed)" % (r.rule, c, name, fl)
        with open(vp, "w") as fh:
            json.dump({"property": pid, "rule": r.rule, "key": "%s/floor/%s" % (r.rule, name), "message": msg}, fh, indent=1)
        say("  [%s] %s" % (r.rule, msg))
        say("VIOLATION property=%s replay=%s" % (pid, vp))
        code = 1
    wall = time.time() - t0
    if write_evidence:
        samples = []
        for r in results:
            for s_ in r.samples[:6]:
                samples.append({"rule": r.rule, **s_} if isinstance(s_, dict) else {"rule": r.rule, "case": s_})
        if not samples:
            samples = [{"note": "no instance matched"}]
        ev = {
            "property_id": pid, "tier": tier, "seed": seed, "level": "other",
            "coverage": {
                "explanation": spec["explanation"],
                "obligations": obligations, "discharged": discharged + sum(len(v) for v in known_hit.values()) * 0,
                "evaluations": max(obligations, 1), "distinct_nontrivial": nontrivial,
                "rule": "each rule instance (call site, store site, loop, sink, refusal point...) found in the MIR of /repo's current source is one obligation; non-trivial = its verdict needed a path, dataflow or provenance argument rather than a direct match",
                "samples": samples[:20],
                "functions_analysed": len(ctx.fx.fns),
                "call_edges": sum(len(c.all_targets()) for cs in ctx.cg.calls.values() for c in cs),
                "profiles": profiles,
                "rules": [r.to_json() for r in results],
                "known_findings": [{"key": k, "what_fails": known_keys[k]["what_fails"], "sites": len(v)} for k, v in known_hit.items()],
                "not_decided": spec.get("not_decided", ""),
                "facts_file_sha": os.path.basename(facts_path),
                "exhaustive": True,
            },
            "assumptions": spec.get("assumptions", []) + [
                "rustc's MIR (dev profile, -Zmir-opt-level=0) faithfully represents the source; std/uuid/fnv/web-time bodies are trusted and not analysed",
                "data-structure invariants named in the rules are established where checked; their preservation by mutators is assumed",
            ],
            "wall_s": round(wall, 3),
            "violations": len(violations) + len(floor_fail),
        }
        os.makedirs(os.path.join(VERIF, "evidence"), exist_ok=True)
        with open(os.path.join(VERIF, "evidence", pid + ".json"), "w") as fh:
            json.dump(ev, fh, indent=1)
    return code, out, results
