//! Evidence that the library's behavioural contract holds, with and without
//! `CompoundFile::rename`.  Uses only the public API (plus `uuid`, which is
//! part of that API) and std.  On a build without `rename` the inherent method
//! is missing, the fallback trait below answers `Unsupported`, and all rename
//! steps are skipped, so the same file compiles and passes on both builds.

use cfb::{CompoundFile, OpenOptions, Version};
use std::collections::HashSet;
use std::io::{self, ErrorKind, Read, Seek, SeekFrom, Write};
use std::path::Path;
use std::sync::{Arc, Mutex};
use std::time::{Duration, SystemTime, UNIX_EPOCH};
use uuid::Uuid;

//===========================================================================//
// Detection of the new API.

#[allow(dead_code)]
trait RenameFallback {
    fn rename<P: AsRef<Path>, Q: AsRef<Path>>(
        &mut self,
        _from: P,
        _to: Q,
    ) -> io::Result<()> {
        Err(io::Error::new(ErrorKind::Unsupported, "no rename in this build"))
    }
}
impl<F> RenameFallback for CompoundFile<F> {}

fn has_rename() -> bool {
    let mut comp = CompoundFile::create(io::Cursor::new(Vec::new())).unwrap();
    comp.create_stream("probe").unwrap();
    match comp.rename("probe", "probe2") {
        Ok(()) => true,
        Err(e) => e.kind() != ErrorKind::Unsupported,
    }
}

//===========================================================================//
// A small deterministic PRNG (xorshift64*).

struct Rng(u64);

impl Rng {
    fn new(seed: u64) -> Rng {
        Rng(seed.wrapping_mul(0x9E37_79B9_7F4A_7C15) | 1)
    }
    fn next(&mut self) -> u64 {
        let mut x = self.0;
        x ^= x >> 12;
        x ^= x << 25;
        x ^= x >> 27;
        self.0 = x;
        x.wrapping_mul(0x2545_F491_4F6C_DD1D)
    }
    fn below(&mut self, n: usize) -> usize {
        (self.next() % n as u64) as usize
    }
    fn chance(&mut self, percent: usize) -> bool {
        self.below(100) < percent
    }
    fn bytes(&mut self, n: usize) -> Vec<u8> {
        (0..n).map(|_| (self.next() >> 32) as u8).collect()
    }
    fn pick<'a, T>(&mut self, items: &'a [T]) -> &'a T {
        &items[self.below(items.len())]
    }
}

//===========================================================================//
// A shared in-memory backend whose bytes can be snapshotted at any time, with
// fault injection, short transfers and interrupted calls.

#[derive(Default)]
struct Ctl {
    ops: u64,
    /// Fail the operation with this index (counting writes, seeks, flushes).
    fail_at: Option<u64>,
    /// Keep failing every later operation too.
    persistent: bool,
    faults: u64,
    /// If non-zero, reads and writes transfer at most this many bytes.
    chunk: usize,
    /// If non-zero, every n-th read or write is interrupted once.
    interrupt_every: u64,
    interrupted_last: bool,
}

#[derive(Clone)]
struct Shared {
    data: Arc<Mutex<Vec<u8>>>,
    ctl: Arc<Mutex<Ctl>>,
    pos: u64,
}

impl Shared {
    fn new() -> Shared {
        Shared::from_bytes(Vec::new())
    }
    fn from_bytes(bytes: Vec<u8>) -> Shared {
        Shared {
            data: Arc::new(Mutex::new(bytes)),
            ctl: Arc::new(Mutex::new(Ctl::default())),
            pos: 0,
        }
    }
    fn snapshot(&self) -> Vec<u8> {
        self.data.lock().unwrap().clone()
    }
    fn arm(&self, fail_at: u64, persistent: bool) {
        let mut ctl = self.ctl.lock().unwrap();
        ctl.ops = 0;
        ctl.faults = 0;
        ctl.fail_at = Some(fail_at);
        ctl.persistent = persistent;
    }
    fn disarm(&self) -> u64 {
        let mut ctl = self.ctl.lock().unwrap();
        ctl.fail_at = None;
        ctl.faults
    }
    fn set_chunking(&self, chunk: usize, interrupt_every: u64) {
        let mut ctl = self.ctl.lock().unwrap();
        ctl.chunk = chunk;
        ctl.interrupt_every = interrupt_every;
    }
    /// Counts a mutating operation and decides whether it fails.
    fn gate(&self) -> io::Result<()> {
        let mut ctl = self.ctl.lock().unwrap();
        let index = ctl.ops;
        ctl.ops += 1;
        if let Some(fail_at) = ctl.fail_at {
            if index == fail_at || (ctl.persistent && index > fail_at) {
                ctl.faults += 1;
                return Err(io::Error::other("injected fault"));
            }
        }
        Ok(())
    }
    /// Decides how many bytes of a transfer of `len` bytes go through, or
    /// whether it is interrupted.
    fn transfer_len(&self, len: usize) -> io::Result<usize> {
        let mut ctl = self.ctl.lock().unwrap();
        if ctl.interrupt_every != 0
            && !ctl.interrupted_last
            && ctl.ops % ctl.interrupt_every == 0
        {
            ctl.interrupted_last = true;
            return Err(io::Error::new(ErrorKind::Interrupted, "again"));
        }
        ctl.interrupted_last = false;
        if ctl.chunk != 0 && len > 0 {
            Ok(len.min(1 + (ctl.ops as usize * 7) % ctl.chunk))
        } else {
            Ok(len)
        }
    }
}

impl Read for Shared {
    fn read(&mut self, buf: &mut [u8]) -> io::Result<usize> {
        let want = self.transfer_len(buf.len())?;
        self.ctl.lock().unwrap().ops += 1;
        let data = self.data.lock().unwrap();
        let start = (self.pos as usize).min(data.len());
        let n = want.min(data.len() - start);
        buf[..n].copy_from_slice(&data[start..start + n]);
        self.pos += n as u64;
        Ok(n)
    }
}

impl Write for Shared {
    fn write(&mut self, buf: &[u8]) -> io::Result<usize> {
        let n = self.transfer_len(buf.len())?;
        self.gate()?;
        let mut data = self.data.lock().unwrap();
        let start = self.pos as usize;
        if data.len() < start + n {
            data.resize(start + n, 0);
        }
        data[start..start + n].copy_from_slice(&buf[..n]);
        self.pos += n as u64;
        Ok(n)
    }
    fn flush(&mut self) -> io::Result<()> {
        self.gate()
    }
}

impl Seek for Shared {
    fn seek(&mut self, pos: SeekFrom) -> io::Result<u64> {
        self.gate()?;
        let len = self.data.lock().unwrap().len() as i64;
        let new_pos = match pos {
            SeekFrom::Start(p) => p as i64,
            SeekFrom::End(d) => len + d,
            SeekFrom::Current(d) => self.pos as i64 + d,
        };
        if new_pos < 0 {
            return Err(io::Error::new(ErrorKind::InvalidInput, "negative"));
        }
        self.pos = new_pos as u64;
        Ok(self.pos)
    }
}

//===========================================================================//
// The abstract model: a tree of storages with case-insensitively unique
// names, whose leaves are byte vectors.

type Key = (usize, Vec<u16>);

fn key(name: &str) -> Key {
    let upper: String =
        name.chars().map(|c| c.to_uppercase().next().unwrap()).collect();
    (name.encode_utf16().count(), upper.encode_utf16().collect())
}

fn valid_name(name: &str) -> bool {
    name.encode_utf16().count() <= 31 && !name.contains(['/', '\\', ':', '!'])
}

fn zero_time() -> SystemTime {
    UNIX_EPOCH - Duration::from_secs(11_644_473_600)
}

#[derive(Clone, Debug, PartialEq)]
struct Node {
    name: String,
    data: Option<Vec<u8>>,
    kids: Vec<Node>,
    clsid: Uuid,
    state: u32,
    created: SystemTime,
    modified: SystemTime,
}

impl Node {
    fn new(name: &str, data: Option<Vec<u8>>) -> Node {
        Node {
            name: name.to_string(),
            data,
            kids: Vec::new(),
            clsid: Uuid::nil(),
            state: 0,
            created: zero_time(),
            modified: zero_time(),
        }
    }
    fn is_stream(&self) -> bool {
        self.data.is_some()
    }
    fn kid_index(&self, name: &str) -> Option<usize> {
        let k = key(name);
        self.kids.iter().position(|n| key(&n.name) == k)
    }
    fn find(&self, comps: &[String]) -> Option<&Node> {
        match comps.split_first() {
            None => Some(self),
            Some((first, rest)) => {
                if self.is_stream() {
                    return None;
                }
                self.kid_index(first).and_then(|i| self.kids[i].find(rest))
            }
        }
    }
    fn find_mut(&mut self, comps: &[String]) -> Option<&mut Node> {
        match comps.split_first() {
            None => Some(self),
            Some((first, rest)) => {
                if self.is_stream() {
                    return None;
                }
                match self.kid_index(first) {
                    Some(i) => self.kids[i].find_mut(rest),
                    None => None,
                }
            }
        }
    }
    fn insert(&mut self, node: Node) {
        assert!(self.kid_index(&node.name).is_none());
        let k = key(&node.name);
        let at = self
            .kids
            .iter()
            .position(|n| key(&n.name) > k)
            .unwrap_or(self.kids.len());
        self.kids.insert(at, node);
    }
}

fn parse_path(path: &str) -> Result<Vec<String>, ErrorKind> {
    let mut names: Vec<String> = Vec::new();
    for (index, comp) in path.split('/').enumerate() {
        if comp.is_empty() {
            if index == 0 {
                names.clear();
            }
            continue;
        }
        if comp == "." {
            continue;
        }
        if comp == ".." {
            if names.pop().is_none() {
                return Err(ErrorKind::InvalidInput);
            }
            continue;
        }
        names.push(comp.to_string());
    }
    Ok(names)
}

fn join(comps: &[String]) -> String {
    format!("/{}", comps.join("/"))
}

struct Model {
    root: Node,
}

type MResult = Result<(), ErrorKind>;

impl Model {
    fn new() -> Model {
        Model { root: Node::new("Root Entry", None) }
    }

    /// Looks up the parent of a path whose last component does not exist.
    fn parent_for_new(
        &mut self,
        comps: &[String],
    ) -> Result<&mut Node, ErrorKind> {
        let (_, parent) = comps.split_last().unwrap();
        match self.root.find_mut(parent) {
            Some(node) if !node.is_stream() => Ok(node),
            _ => Err(ErrorKind::NotFound),
        }
    }

    fn create_storage(&mut self, path: &str, now: SystemTime) -> MResult {
        let comps = parse_path(path)?;
        if self.root.find(&comps).is_some() {
            return Err(ErrorKind::AlreadyExists);
        }
        let parent = self.parent_for_new(&comps)?;
        let name = comps.last().unwrap();
        if !valid_name(name) {
            return Err(ErrorKind::InvalidInput);
        }
        let mut node = Node::new(name, None);
        node.created = now;
        node.modified = now;
        parent.insert(node);
        Ok(())
    }

    fn create_storage_all(&mut self, path: &str, now: SystemTime) -> MResult {
        let comps = parse_path(path)?;
        if comps.iter().any(|n| !valid_name(n)) {
            return Err(ErrorKind::InvalidInput);
        }
        for length in 1..=comps.len() {
            match self.root.find(&comps[..length]) {
                Some(node) if !node.is_stream() => continue,
                _ => self.create_storage(&join(&comps[..length]), now)?,
            }
        }
        Ok(())
    }

    fn create_stream(&mut self, path: &str, overwrite: bool) -> MResult {
        let comps = parse_path(path)?;
        if let Some(node) = self.root.find_mut(&comps) {
            if !node.is_stream() || !overwrite {
                return Err(ErrorKind::AlreadyExists);
            }
            node.data = Some(Vec::new());
            return Ok(());
        }
        let parent = self.parent_for_new(&comps)?;
        let name = comps.last().unwrap();
        if !valid_name(name) {
            return Err(ErrorKind::InvalidInput);
        }
        parent.insert(Node::new(name, Some(Vec::new())));
        Ok(())
    }

    fn remove(&mut self, comps: &[String]) -> Node {
        let (name, parent) = comps.split_last().unwrap();
        let parent = self.root.find_mut(parent).unwrap();
        let index = parent.kid_index(name).unwrap();
        parent.kids.remove(index)
    }

    fn remove_stream(&mut self, path: &str) -> MResult {
        let comps = parse_path(path)?;
        match self.root.find(&comps) {
            None => Err(ErrorKind::NotFound),
            Some(node) if !node.is_stream() => Err(ErrorKind::InvalidInput),
            Some(_) => {
                self.remove(&comps);
                Ok(())
            }
        }
    }

    fn remove_storage(&mut self, path: &str) -> MResult {
        let comps = parse_path(path)?;
        match self.root.find(&comps) {
            None => Err(ErrorKind::NotFound),
            Some(node)
                if comps.is_empty()
                    || node.is_stream()
                    || !node.kids.is_empty() =>
            {
                Err(ErrorKind::InvalidInput)
            }
            Some(_) => {
                self.remove(&comps);
                Ok(())
            }
        }
    }

    fn remove_storage_all(&mut self, path: &str) -> MResult {
        let comps = parse_path(path)?;
        if self.root.find(&comps).is_none() {
            return Err(ErrorKind::NotFound);
        }
        if comps.is_empty() {
            self.root.kids.clear();
        } else {
            self.remove(&comps);
        }
        Ok(())
    }

    fn rename(&mut self, from: &str, to: &str) -> MResult {
        let from = parse_path(from)?;
        let to = parse_path(to)?;
        if self.root.find(&from).is_none() {
            return Err(ErrorKind::NotFound);
        }
        if from.is_empty() {
            return Err(ErrorKind::InvalidInput);
        }
        // The chain of names that really leads to the object.
        let same_object = |model: &Model, path: &[String]| {
            path.len() == from.len()
                && model.root.find(path).is_some()
                && path.iter().zip(from.iter()).all(|(a, b)| key(a) == key(b))
        };
        if self.root.find(&to).is_some() {
            if !same_object(self, &to) {
                return Err(ErrorKind::AlreadyExists);
            }
            let new_name = to.last().unwrap().clone();
            self.root.find_mut(&from).unwrap().name = new_name;
            return Ok(());
        }
        let (new_name, new_parent) = to.split_last().unwrap();
        match self.root.find(new_parent) {
            Some(node) if !node.is_stream() => {}
            _ => return Err(ErrorKind::NotFound),
        }
        for length in 1..=new_parent.len() {
            if same_object(self, &new_parent[..length]) {
                return Err(ErrorKind::InvalidInput);
            }
        }
        if !valid_name(new_name) {
            return Err(ErrorKind::InvalidInput);
        }
        let mut node = self.remove(&from);
        node.name = new_name.clone();
        self.root.find_mut(new_parent).unwrap().insert(node);
        Ok(())
    }

    fn set_state_bits(&mut self, path: &str, bits: u32) -> MResult {
        let comps = parse_path(path)?;
        match self.root.find_mut(&comps) {
            None => Err(ErrorKind::NotFound),
            Some(node) => {
                node.state = bits;
                Ok(())
            }
        }
    }

    fn set_clsid(&mut self, path: &str, clsid: Uuid) -> MResult {
        let comps = parse_path(path)?;
        match self.root.find_mut(&comps) {
            None => Err(ErrorKind::NotFound),
            Some(node) if node.is_stream() => Err(ErrorKind::InvalidInput),
            Some(node) => {
                node.clsid = clsid;
                Ok(())
            }
        }
    }

    fn set_time(
        &mut self,
        path: &str,
        t: SystemTime,
        created: bool,
    ) -> MResult {
        let comps = parse_path(path)?;
        match self.root.find_mut(&comps) {
            None => Err(ErrorKind::NotFound),
            Some(node) => {
                if !node.is_stream() {
                    if created {
                        node.created = t;
                    } else {
                        node.modified = t;
                    }
                }
                Ok(())
            }
        }
    }

    /// All paths in pre-order, as component lists.
    fn paths(&self) -> Vec<Vec<String>> {
        fn visit(
            node: &Node,
            here: &mut Vec<String>,
            out: &mut Vec<Vec<String>>,
        ) {
            out.push(here.clone());
            for kid in node.kids.iter() {
                here.push(kid.name.clone());
                visit(kid, here, out);
                here.pop();
            }
        }
        let mut out = Vec::new();
        visit(&self.root, &mut Vec::new(), &mut out);
        out
    }
}

//===========================================================================//
// Comparison of a compound file with the model.

#[derive(Debug, PartialEq)]
struct Flat {
    path: String,
    name: String,
    is_stream: bool,
    len: u64,
    clsid: Uuid,
    state: u32,
    created: SystemTime,
    modified: SystemTime,
}

fn flat_of_node(path: String, node: &Node) -> Flat {
    Flat {
        path,
        name: node.name.clone(),
        is_stream: node.is_stream(),
        len: node.data.as_ref().map_or(0, |d| d.len() as u64),
        clsid: node.clsid,
        state: node.state,
        created: node.created,
        modified: node.modified,
    }
}

fn flat_of_entry(entry: &cfb::Entry) -> Flat {
    assert_eq!(entry.is_stream(), !entry.is_storage());
    Flat {
        path: entry.path().to_str().unwrap().to_string(),
        name: entry.name().to_string(),
        is_stream: entry.is_stream(),
        // The root's length is that of the mini stream: not part of the model.
        len: if entry.is_root() { 0 } else { entry.len() },
        clsid: *entry.clsid(),
        state: entry.state_bits(),
        created: entry.created(),
        modified: entry.modified(),
    }
}

fn swap_case(s: &str) -> String {
    s.chars()
        .map(|c| {
            if c.is_ascii_lowercase() {
                c.to_ascii_uppercase()
            } else {
                c.to_ascii_lowercase()
            }
        })
        .collect()
}

macro_rules! ensure {
    ($cond:expr, $($arg:tt)+) => {
        if !$cond { return Err(format!($($arg)+)); }
    };
}

/// Compares everything observable without `&mut` with the model.
fn diff_readonly<F>(
    comp: &CompoundFile<F>,
    model: &Model,
) -> Result<(), String> {
    let paths = model.paths();
    let expected: Vec<Flat> = paths
        .iter()
        .map(|p| flat_of_node(join(p), model.root.find(p).unwrap()))
        .collect();
    let actual: Vec<Flat> = comp.walk().map(|e| flat_of_entry(&e)).collect();
    ensure!(actual == expected, "walk: {:?}\n  model: {:?}", actual, expected);
    ensure!(flat_of_entry(&comp.root_entry()) == expected[0], "root_entry");
    for (comps, flat) in paths.iter().zip(expected.iter()) {
        let path = join(comps);
        let node = model.root.find(comps).unwrap();
        let variant = swap_case(&path);
        ensure!(comp.exists(&path), "exists {}", path);
        ensure!(comp.exists(&variant), "exists {}", variant);
        ensure!(
            comp.is_stream(&variant) == node.is_stream(),
            "is_stream {}",
            path
        );
        ensure!(
            comp.is_storage(&path) != node.is_stream(),
            "is_storage {}",
            path
        );
        let entry = comp.entry(&path).map_err(|e| e.to_string())?;
        ensure!(&flat_of_entry(&entry) == flat, "entry {}", path);
        // The entry found under another spelling reports the stored name.
        let other = comp.entry(&variant).map_err(|e| e.to_string())?;
        ensure!(other.name() == flat.name, "entry {}", variant);
        if node.is_stream() {
            let kind = comp.read_storage(&path).err().map(|e| e.kind());
            ensure!(
                kind == Some(ErrorKind::InvalidInput),
                "read_storage {}",
                path
            );
        } else {
            let listed: Vec<Flat> = comp
                .read_storage(&path)
                .map_err(|e| e.to_string())?
                .map(|e| flat_of_entry(&e))
                .collect();
            let kids: Vec<Flat> = node
                .kids
                .iter()
                .map(|kid| {
                    let mut p = comps.clone();
                    p.push(kid.name.clone());
                    flat_of_node(join(&p), kid)
                })
                .collect();
            ensure!(listed == kids, "read_storage {}: {:?}", path, listed);
            let sub: Vec<String> = comp
                .walk_storage(&path)
                .map_err(|e| e.to_string())?
                .map(|e| e.path().to_str().unwrap().to_string())
                .collect();
            let want: Vec<String> = paths
                .iter()
                .filter(|p| p.starts_with(comps))
                .map(|p| join(p))
                .collect();
            ensure!(sub == want, "walk_storage {}: {:?}", path, sub);
        }
    }
    ensure!(!comp.exists("/no such thing"), "exists");
    let kind = comp.entry("/no such thing").err().map(|e| e.kind());
    ensure!(kind == Some(ErrorKind::NotFound), "entry of a missing path");
    Ok(())
}

/// Compares everything, stream contents included, with the model.
fn diff_all<F: Read + Seek>(
    comp: &mut CompoundFile<F>,
    model: &Model,
) -> Result<(), String> {
    diff_readonly(comp, model)?;
    for comps in model.paths() {
        let node = model.root.find(&comps).unwrap();
        let path = join(&comps);
        match node.data {
            Some(ref data) => {
                let mut stream =
                    comp.open_stream(&path).map_err(|e| e.to_string())?;
                ensure!(stream.len() == data.len() as u64, "len of {}", path);
                let mut actual = Vec::new();
                stream.read_to_end(&mut actual).map_err(|e| e.to_string())?;
                ensure!(&actual == data, "content of {}", path);
            }
            None => {
                let kind = comp.open_stream(&path).err().map(|e| e.kind());
                ensure!(
                    kind == Some(ErrorKind::InvalidInput),
                    "open_stream {}",
                    path
                );
            }
        }
    }
    Ok(())
}

fn check_all<F: Read + Seek>(
    comp: &mut CompoundFile<F>,
    model: &Model,
    what: &str,
) {
    if let Err(msg) = diff_all(comp, model) {
        panic!("{}: {}", what, msg);
    }
}

/// Builds the model that describes a compound file.
fn model_of<F: Read + Seek>(comp: &mut CompoundFile<F>) -> Model {
    let mut model = Model::new();
    let entries: Vec<cfb::Entry> = comp.walk().collect();
    for entry in entries {
        let comps = parse_path(entry.path().to_str().unwrap()).unwrap();
        let mut node = Node::new(entry.name(), None);
        if entry.is_stream() {
            let mut data = Vec::new();
            comp.open_stream(entry.path())
                .unwrap()
                .read_to_end(&mut data)
                .unwrap();
            node.data = Some(data);
        }
        node.clsid = *entry.clsid();
        node.state = entry.state_bits();
        node.created = entry.created();
        node.modified = entry.modified();
        if comps.is_empty() {
            model.root = node;
        } else {
            let (_, parent) = comps.split_last().unwrap();
            model.root.find_mut(parent).unwrap().insert(node);
        }
    }
    model
}

/// Reopens a byte image in both modes, compares it with the model and runs
/// the independent structure checker on it.
fn check_image(bytes: &[u8], model: &Model, what: &str) {
    if let Err(msg) = check_structure(bytes) {
        panic!("{}: malformed image: {}", what, msg);
    }
    let mut strict =
        CompoundFile::open_strict(io::Cursor::new(bytes.to_vec()))
            .unwrap_or_else(|e| panic!("{}: strict open: {}", what, e));
    check_all(&mut strict, model, &format!("{} (strict reopen)", what));
    let mut permissive = CompoundFile::open(io::Cursor::new(bytes.to_vec()))
        .unwrap_or_else(|e| panic!("{}: open: {}", what, e));
    check_all(&mut permissive, model, &format!("{} (reopen)", what));
}

//===========================================================================//
// An independent MS-CFB structure checker (shares no code with the library).

const FREE: u32 = 0xFFFF_FFFF;
const END: u32 = 0xFFFF_FFFE;
const FATSECT: u32 = 0xFFFF_FFFD;
const DIFSECT: u32 = 0xFFFF_FFFC;
const NOSTREAM: u32 = 0xFFFF_FFFF;

fn u16_at(b: &[u8], at: usize) -> u16 {
    u16::from_le_bytes([b[at], b[at + 1]])
}
fn u32_at(b: &[u8], at: usize) -> u32 {
    u32::from_le_bytes([b[at], b[at + 1], b[at + 2], b[at + 3]])
}
fn u64_at(b: &[u8], at: usize) -> u64 {
    u32_at(b, at) as u64 | (u32_at(b, at + 4) as u64) << 32
}

struct RawEntry {
    name: Vec<u16>,
    kind: u8,
    red: bool,
    left: u32,
    right: u32,
    child: u32,
    start: u32,
    size: u64,
    offset: usize,
}

struct Layout {
    sector_len: usize,
    fat: Vec<u32>,
    entries: Vec<RawEntry>,
}

macro_rules! check {
    ($cond:expr, $($arg:tt)+) => {
        if !$cond { return Err(format!($($arg)+)); }
    };
}

fn raw_key(name: &[u16]) -> Key {
    let s = String::from_utf16(name).unwrap();
    key(&s)
}

fn parse_layout(b: &[u8]) -> Result<Layout, String> {
    check!(b.len() >= 512, "too short");
    check!(
        b[..8] == [0xD0, 0xCF, 0x11, 0xE0, 0xA1, 0xB1, 0x1A, 0xE1],
        "magic"
    );
    check!(b[8..24].iter().all(|&x| x == 0), "header clsid");
    let major = u16_at(b, 26);
    let shift = u16_at(b, 30);
    check!((major, shift) == (3, 9) || (major, shift) == (4, 12), "version");
    check!(u16_at(b, 28) == 0xFFFE, "byte order");
    check!(u16_at(b, 32) == 6, "mini shift");
    check!(u32_at(b, 56) == 4096, "cutoff");
    let sector_len = 1usize << shift;
    check!(b.len() % sector_len == 0, "length {} not whole sectors", b.len());
    let nsect = b.len() / sector_len - 1;
    let per = sector_len / 4;
    let sector = |id: u32| -> Result<&[u8], String> {
        check!((id as usize) < nsect, "sector {} out of range", id);
        let at = (id as usize + 1) * sector_len;
        Ok(&b[at..at + sector_len])
    };
    // DIFAT
    let mut difat: Vec<u32> =
        (0..109).map(|i| u32_at(b, 76 + 4 * i)).collect();
    let mut difat_sectors = Vec::new();
    let mut next = u32_at(b, 68);
    while next != END {
        check!(!difat_sectors.contains(&next), "DIFAT loop");
        difat_sectors.push(next);
        let s = sector(next)?;
        difat.extend((0..per - 1).map(|i| u32_at(s, 4 * i)));
        next = u32_at(s, sector_len - 4);
    }
    check!(u32_at(b, 72) as usize == difat_sectors.len(), "DIFAT count");
    let used = difat.iter().position(|&x| x == FREE).unwrap_or(difat.len());
    check!(difat[used..].iter().all(|&x| x == FREE), "DIFAT has holes");
    difat.truncate(used);
    check!(u32_at(b, 44) as usize == difat.len(), "FAT sector count");
    // FAT
    let mut fat = Vec::new();
    for &id in difat.iter() {
        let s = sector(id)?;
        fat.extend((0..per).map(|i| u32_at(s, 4 * i)));
    }
    check!(fat.len() >= nsect, "FAT too short");
    check!(fat[nsect..].iter().all(|&x| x == FREE), "FAT beyond end of file");
    fat.truncate(nsect);
    for &id in difat.iter() {
        check!(fat[id as usize] == FATSECT, "FAT sector {} not marked", id);
    }
    for &id in difat_sectors.iter() {
        check!(fat[id as usize] == DIFSECT, "DIFAT sector {} not marked", id);
    }
    let marked = fat.iter().filter(|&&x| x == FATSECT).count();
    check!(marked == difat.len(), "stray FAT marks");
    let marked = fat.iter().filter(|&&x| x == DIFSECT).count();
    check!(marked == difat_sectors.len(), "stray DIFAT marks");
    // Directory
    let mut entries = Vec::new();
    let mut next = u32_at(b, 48);
    let mut seen = HashSet::new();
    while next != END {
        check!(seen.insert(next), "directory chain loop");
        let s = sector(next)?;
        for i in 0..sector_len / 128 {
            let e = &s[128 * i..128 * (i + 1)];
            let name_len = u16_at(e, 64) as usize;
            check!(name_len % 2 == 0 && name_len <= 64, "name length");
            let units = if name_len == 0 { 0 } else { name_len / 2 - 1 };
            entries.push(RawEntry {
                name: (0..units).map(|j| u16_at(e, 2 * j)).collect(),
                kind: e[66],
                red: e[67] == 0,
                left: u32_at(e, 68),
                right: u32_at(e, 72),
                child: u32_at(e, 76),
                start: u32_at(e, 116),
                size: u64_at(e, 120),
                offset: (next as usize + 1) * sector_len + 128 * i,
            });
        }
        next = fat[next as usize];
    }
    let want = if major == 3 { 0 } else { seen.len() };
    check!(u32_at(b, 40) as usize == want, "directory sector count");
    Ok(Layout { sector_len, fat, entries })
}

fn check_structure(b: &[u8]) -> Result<(), String> {
    let Layout { sector_len, fat, entries } = parse_layout(b)?;
    let nsect = fat.len();
    let mut owner: Vec<Option<String>> = vec![None; nsect];
    let mut claim_chain = |start: u32,
                           who: &str|
     -> Result<Vec<u32>, String> {
        let mut chain = Vec::new();
        let mut next = start;
        while next != END {
            check!(
                (next as usize) < nsect,
                "{}: sector {} out of range",
                who,
                next
            );
            check!(
                fat[next as usize] <= 0xFFFF_FFFA || fat[next as usize] == END,
                "{}: sector {} is special or free",
                who,
                next
            );
            if let Some(ref other) = owner[next as usize] {
                return Err(format!(
                    "sector {} owned by {} and {}",
                    next, other, who
                ));
            }
            owner[next as usize] = Some(who.to_string());
            chain.push(next);
            next = fat[next as usize];
        }
        Ok(chain)
    };
    claim_chain(u32_at(b, 48), "directory")?;
    let minifat_chain = claim_chain(u32_at(b, 60), "MiniFAT")?;
    check!(u32_at(b, 64) as usize == minifat_chain.len(), "MiniFAT count");
    let mut minifat = Vec::new();
    for &id in minifat_chain.iter() {
        let at = (id as usize + 1) * sector_len;
        minifat.extend((0..sector_len / 4).map(|i| u32_at(b, at + 4 * i)));
    }
    // Root entry and mini stream.
    check!(!entries.is_empty() && entries[0].kind == 5, "root entry");
    let root = &entries[0];
    check!(
        String::from_utf16(&root.name).unwrap() == "Root Entry",
        "root name"
    );
    check!(root.size % 64 == 0, "mini stream length");
    let mini_chain = claim_chain(root.start, "mini stream")?;
    check!(
        (mini_chain.len() * sector_len) as u64 >= root.size,
        "mini stream chain short"
    );
    let nmini = (root.size / 64) as usize;
    check!(minifat.len() >= nmini, "MiniFAT shorter than mini stream");
    check!(
        minifat[nmini..].iter().all(|&x| x == FREE),
        "MiniFAT beyond mini stream"
    );
    let mut mini_owner: Vec<Option<u32>> = vec![None; nmini];
    // Walk the tree.
    let mut reachable = vec![false; entries.len()];
    reachable[0] = true;
    let mut storages = vec![0u32];
    while let Some(storage_id) = storages.pop() {
        // (id, parent is red, lower bound, upper bound)
        let mut stack: Vec<(u32, bool, Option<Key>, Option<Key>)> =
            vec![(entries[storage_id as usize].child, false, None, None)];
        let mut names = HashSet::new();
        while let Some((id, parent_red, lo, hi)) = stack.pop() {
            if id == NOSTREAM {
                continue;
            }
            check!(
                (id as usize) < entries.len(),
                "entry id {} out of range",
                id
            );
            check!(!reachable[id as usize], "entry {} reachable twice", id);
            reachable[id as usize] = true;
            let e = &entries[id as usize];
            check!(
                e.kind == 1 || e.kind == 2,
                "entry {} has type {}",
                id,
                e.kind
            );
            check!(!(parent_red && e.red), "adjacent red nodes at {}", id);
            let raw = &b[e.offset..e.offset + 128];
            let name =
                String::from_utf16(&e.name).map_err(|_| "bad UTF-16")?;
            check!(
                !e.name.is_empty() && valid_name(&name),
                "invalid name {:?}",
                name
            );
            check!(
                raw[2 * e.name.len()..64].iter().all(|&x| x == 0),
                "name padding of {}",
                id
            );
            let k = raw_key(&e.name);
            check!(names.insert(k.clone()), "duplicate name {:?}", name);
            check!(
                lo.as_ref().map_or(true, |lo| *lo < k),
                "order at {:?}",
                name
            );
            check!(
                hi.as_ref().map_or(true, |hi| k < *hi),
                "order at {:?}",
                name
            );
            stack.push((e.left, e.red, lo, Some(k.clone())));
            stack.push((e.right, e.red, Some(k), hi));
            if e.kind == 1 {
                check!(
                    e.start == 0 && e.size == 0,
                    "storage {} has start or size",
                    id
                );
                storages.push(id);
            } else {
                check!(e.child == NOSTREAM, "stream {} has a child", id);
                check!(
                    raw[80..96].iter().all(|&x| x == 0),
                    "stream {} has a CLSID",
                    id
                );
                check!(
                    raw[100..116].iter().all(|&x| x == 0),
                    "stream {} has times",
                    id
                );
                let who = format!("stream {}", id);
                if e.size >= 4096 {
                    let chain = claim_chain(e.start, &who)?;
                    let want = (e.size as usize).div_ceil(sector_len);
                    check!(
                        chain.len() == want,
                        "{}: {} sectors for {} bytes",
                        who,
                        chain.len(),
                        e.size
                    );
                } else {
                    let mut count = 0;
                    let mut next = e.start;
                    while next != END {
                        check!(
                            (next as usize) < nmini,
                            "{}: mini sector {} out of range",
                            who,
                            next
                        );
                        check!(
                            mini_owner[next as usize].is_none(),
                            "mini sector {} shared",
                            next
                        );
                        mini_owner[next as usize] = Some(id);
                        count += 1;
                        next = minifat[next as usize];
                        check!(
                            next != FREE,
                            "{}: free mini sector in chain",
                            who
                        );
                    }
                    let want = (e.size as usize).div_ceil(64);
                    check!(
                        count == want,
                        "{}: {} mini sectors for {} bytes",
                        who,
                        count,
                        e.size
                    );
                }
            }
        }
    }
    for (id, e) in entries.iter().enumerate() {
        if !reachable[id] {
            let raw = &b[e.offset..e.offset + 128];
            check!(e.kind == 0, "unreachable entry {} is allocated", id);
            let blank = raw[..64].iter().all(|&x| x == 0)
                && raw[66..68].iter().all(|&x| x == 0)
                && raw[80..].iter().all(|&x| x == 0)
                && e.left == NOSTREAM
                && e.right == NOSTREAM
                && e.child == NOSTREAM;
            check!(blank, "unallocated entry {} is not blank", id);
        }
    }
    for id in 0..nsect {
        let special = fat[id] == FATSECT || fat[id] == DIFSECT;
        match owner[id] {
            Some(_) => {}
            None => check!(
                fat[id] == FREE || special,
                "sector {} has no owner",
                id
            ),
        }
    }
    for id in 0..nmini {
        check!(
            mini_owner[id].is_some() == (minifat[id] != FREE),
            "mini sector {} owner/MiniFAT mismatch",
            id
        );
    }
    Ok(())
}

//===========================================================================//
// Random histories.

const NAMES: &[&str] = &[
    "a",
    "B",
    "c",
    "ab",
    "AB",
    "Cd",
    "abc",
    "abd",
    "\u{e9}",
    "\u{c9}t\u{e9}",
    "\u{436}\u{436}",
    "\u{1F600}x",
    "\u{ffee}yz",
    "name with spaces and.dots",
    "bang!",
    "a name of exactly 31 utf16 unit",
    "a name of more than 31 utf-16 units",
    "co:lon",
    "back\\slash",
];

const SIZES: &[usize] =
    &[0, 1, 63, 64, 65, 640, 4095, 4096, 4097, 5000, 9000, 12288];

fn t(ticks: u64) -> SystemTime {
    // A time on the 100ns grid, given in ticks since 1601.
    zero_time()
        + Duration::from_secs(ticks / 10_000_000)
        + Duration::from_nanos((ticks % 10_000_000) * 100)
}

struct Driver {
    rng: Rng,
    model: Model,
    with_rename: bool,
    renames_done: usize,
    /// Remove rarely, so that the sibling trees grow.
    dense: bool,
    /// Overwrite the clock readings in new storages by fixed times.
    pin_times: bool,
}

impl Driver {
    fn new(seed: u64, with_rename: bool) -> Driver {
        Driver {
            rng: Rng::new(seed),
            model: Model::new(),
            with_rename,
            renames_done: 0,
            dense: seed % 2 == 0,
            pin_times: false,
        }
    }
}

impl Driver {
    fn random_existing(&mut self, want_storage: Option<bool>) -> String {
        let paths = self.model.paths();
        let candidates: Vec<&Vec<String>> = paths
            .iter()
            .filter(|p| match want_storage {
                None => true,
                Some(s) => self.model.root.find(p).unwrap().is_stream() != s,
            })
            .collect();
        if candidates.is_empty() {
            return "/".to_string();
        }
        let comps = (*self.rng.pick(&candidates)).clone();
        self.decorate(&comps)
    }

    fn random_name(&mut self) -> String {
        let name = *self.rng.pick(NAMES);
        if self.rng.chance(30) {
            swap_case(name)
        } else {
            name.to_string()
        }
    }

    /// A path, possibly to something that doesn't exist.
    fn random_target(&mut self) -> String {
        let parent_is_storage =
            if self.rng.chance(92) { Some(true) } else { None };
        let parent = self.random_existing(parent_is_storage);
        let mut comps = parse_path(&parent).unwrap();
        if self.rng.chance(5) {
            comps.push("missing".to_string());
        }
        comps.push(self.random_name());
        self.decorate(&comps)
    }

    fn decorate(&mut self, comps: &[String]) -> String {
        let mut path = join(comps);
        match self.rng.below(12) {
            0 => path = path.trim_start_matches('/').to_string(),
            1 => path.push('/'),
            2 => path = format!("/.{}", path),
            3 => path = format!("/zz/..{}", path),
            4 => path = swap_case(&path),
            5 if !comps.is_empty() => path = format!("{}/q/..", path),
            _ => {}
        }
        path
    }

    /// Performs one random operation on both the file and the model, and
    /// checks that both agree on the outcome.
    fn step<F: Read + Write + Seek>(
        &mut self,
        comp: &mut CompoundFile<F>,
        snapshot: &dyn Fn() -> Vec<u8>,
    ) {
        let before = snapshot();
        let mut choice = self.rng.below(100);
        if self.dense && (32..48).contains(&choice) && self.rng.chance(75) {
            // Few removals: let the sibling trees grow.
            choice = self.rng.below(32);
        }
        let (what, actual, expected): (String, io::Result<()>, MResult) =
            if choice < 18 {
                let path = self.random_target();
                let overwrite = self.rng.chance(50);
                let size = *self.rng.pick(SIZES);
                let data = self.rng.bytes(size);
                let expected = self.model.create_stream(&path, overwrite);
                let actual = (|| {
                    let mut stream = if overwrite {
                        comp.create_stream(&path)?
                    } else {
                        comp.create_new_stream(&path)?
                    };
                    stream.write_all(&data)?;
                    stream.flush()
                })();
                if expected.is_ok() {
                    let comps = parse_path(&path).unwrap();
                    self.model.root.find_mut(&comps).unwrap().data =
                        Some(data);
                }
                (
                    format!("create_stream({:?}, {})", path, size),
                    actual,
                    expected,
                )
            } else if choice < 28 {
                let path = self.random_target();
                let before_call = SystemTime::now();
                let actual = comp.create_storage(&path);
                let after_call = SystemTime::now();
                let expected = self.model.create_storage(&path, zero_time());
                if actual.is_ok() && expected.is_ok() {
                    let mut created = comp.entry(&path).unwrap().created();
                    assert!(created <= after_call);
                    assert!(created + Duration::from_nanos(100) > before_call);
                    if self.pin_times {
                        created =
                            t(77_000_000_000 + self.rng.below(1000) as u64);
                        comp.set_created_time(&path, created).unwrap();
                        comp.set_modified_time(&path, created).unwrap();
                    }
                    let comps = parse_path(&path).unwrap();
                    let node = self.model.root.find_mut(&comps).unwrap();
                    node.created = created;
                    node.modified = created;
                }
                (format!("create_storage({:?})", path), actual, expected)
            } else if choice < 32 {
                let mut path = self.random_target();
                if self.rng.chance(60) {
                    path = format!("{}/{}", path, self.random_name());
                }
                let actual = comp.create_storage_all(&path);
                let pin = t(1_000_000 + self.rng.below(1000) as u64);
                let expected = self.model.create_storage_all(&path, pin);
                if actual.is_ok() && expected.is_ok() {
                    // New storages got the current time; pin them.
                    let comps = parse_path(&path).unwrap();
                    for length in 1..=comps.len() {
                        let node =
                            self.model.root.find(&comps[..length]).unwrap();
                        if node.created == pin {
                            let p = join(&comps[..length]);
                            comp.set_created_time(&p, pin).unwrap();
                            comp.set_modified_time(&p, pin).unwrap();
                        }
                    }
                }
                (format!("create_storage_all({:?})", path), actual, expected)
            } else if choice < 40 {
                let want =
                    if self.rng.chance(90) { Some(false) } else { None };
                let path = self.random_existing(want);
                let actual = comp.remove_stream(&path);
                let expected = self.model.remove_stream(&path);
                (format!("remove_stream({:?})", path), actual, expected)
            } else if choice < 46 {
                let want = if self.rng.chance(90) { Some(true) } else { None };
                let path = self.random_existing(want);
                let actual = comp.remove_storage(&path);
                let expected = self.model.remove_storage(&path);
                (format!("remove_storage({:?})", path), actual, expected)
            } else if choice < 48 {
                let path = if self.rng.chance(80) {
                    self.random_existing(Some(true))
                } else {
                    self.random_target()
                };
                let actual = comp.remove_storage_all(&path);
                let expected = self.model.remove_storage_all(&path);
                (format!("remove_storage_all({:?})", path), actual, expected)
            } else if choice < 56 {
                // Whole-stream overwrite through a handle.
                let path = self.random_existing(Some(false));
                let size = *self.rng.pick(SIZES);
                let data = self.rng.bytes(size);
                let comps = parse_path(&path).unwrap();
                let expected = match self.model.root.find_mut(&comps) {
                    Some(node) if node.is_stream() => {
                        node.data = Some(data.clone());
                        Ok(())
                    }
                    Some(_) => Err(ErrorKind::InvalidInput),
                    None => Err(ErrorKind::NotFound),
                };
                let actual = (|| {
                    let mut stream = comp.open_stream(&path)?;
                    stream.set_len(0)?;
                    stream.write_all(&data)?;
                    stream.flush()
                })();
                (format!("rewrite({:?}, {})", path, size), actual, expected)
            } else if choice < 62 {
                let path = if self.rng.chance(90) {
                    self.random_existing(None)
                } else {
                    self.random_target()
                };
                let bits = self.rng.next() as u32;
                let actual = comp.set_state_bits(&path, bits);
                let expected = self.model.set_state_bits(&path, bits);
                (format!("set_state_bits({:?})", path), actual, expected)
            } else if choice < 67 {
                let path = if self.rng.chance(90) {
                    self.random_existing(None)
                } else {
                    self.random_target()
                };
                let clsid = Uuid::from_u128(
                    (self.rng.next() as u128) << 64 | self.rng.next() as u128,
                );
                let actual = comp.set_storage_clsid(&path, clsid);
                let expected = self.model.set_clsid(&path, clsid);
                (format!("set_storage_clsid({:?})", path), actual, expected)
            } else if choice < 72 {
                let path = if self.rng.chance(90) {
                    self.random_existing(None)
                } else {
                    self.random_target()
                };
                let time = t(self.rng.next() >> 4);
                let created = self.rng.chance(50);
                let actual = if created {
                    comp.set_created_time(&path, time)
                } else {
                    comp.set_modified_time(&path, time)
                };
                let expected = self.model.set_time(&path, time, created);
                (format!("set_time({:?})", path), actual, expected)
            } else if self.with_rename {
                let from = match self.rng.below(20) {
                    0 => self.random_target(),
                    1 => "/".to_string(),
                    2 => "../x".to_string(),
                    _ => self.random_existing(None),
                };
                let to = match self.rng.below(20) {
                    0 => self.random_existing(None),
                    1 => "/".to_string(),
                    2 => "/a/../../x".to_string(),
                    3 | 4 => {
                        // Another spelling of the same place.
                        let comps = parse_path(&from).unwrap_or_default();
                        swap_case(&join(&comps))
                    }
                    5 => format!("{}/{}", from, self.random_name()),
                    6..=8 => {
                        // Same parent, new name.
                        let mut comps = parse_path(&from).unwrap_or_default();
                        comps.pop();
                        comps.push(self.random_name());
                        join(&comps)
                    }
                    _ => self.random_target(),
                };
                let actual = comp.rename(&from, &to);
                let expected = self.model.rename(&from, &to);
                if expected.is_ok() {
                    self.renames_done += 1;
                }
                (format!("rename({:?}, {:?})", from, to), actual, expected)
            } else {
                return;
            };
        if std::env::var("FC_TRACE").is_ok() {
            let op = what.split('(').next().unwrap();
            println!("STAT {} {:?}", op, expected);
        }
        match (&actual, &expected) {
            (Ok(()), Ok(())) => {}
            (Err(err), Err(kind)) => {
                assert_eq!(err.kind(), *kind, "{}: {}", what, err);
                // C10: a refused call changes no byte.
                assert!(snapshot() == before, "{}: bytes changed", what);
            }
            _ => {
                panic!("{}: got {:?}, model says {:?}", what, actual, expected)
            }
        }
        check_all(comp, &self.model, &what);
        check_image(&snapshot(), &self.model, &what);
    }
}

#[test]
fn random_histories_match_model() {
    let with_rename = has_rename();
    let mut renames = 0;
    for &version in &[Version::V3, Version::V4] {
        for seed in 1..=8 {
            renames += run_history_reopening(version, seed, 150, with_rename);
        }
    }
    if with_rename {
        assert!(renames > 100, "only {} successful renames", renames);
    }
}

/// Like `run_history`, but really switches to the reopened file.
fn run_history_reopening(
    version: Version,
    seed: u64,
    steps: usize,
    with_rename: bool,
) -> usize {
    let mut backend = Shared::new();
    let mut comp =
        CompoundFile::create_with_version(version, backend.clone()).unwrap();
    let mut driver = Driver::new(seed, with_rename);
    check_image(&backend.snapshot(), &driver.model, "fresh");
    for _ in 0..steps {
        let live = backend.clone();
        driver.step(&mut comp, &move || live.snapshot());
        if driver.rng.chance(4) {
            // Continue on the bytes alone, as after a crash without flush.
            drop(comp);
            backend = Shared::from_bytes(backend.snapshot());
            let buffer = *driver.rng.pick(&[0usize, 1, 64, 4096, 1 << 20]);
            let mut options = OpenOptions::new().max_buffer_size(buffer);
            if driver.rng.chance(50) {
                options = options.strict();
            }
            comp = options.open_with(backend.clone()).unwrap();
            assert_eq!(comp.version(), version);
        }
    }
    driver.renames_done
}

//===========================================================================//
// Deterministic checks of `rename` itself.

fn kind_of(result: io::Result<()>) -> Option<ErrorKind> {
    result.err().map(|e| e.kind())
}

#[test]
fn rename_outcomes() {
    if !has_rename() {
        return;
    }
    for &version in &[Version::V3, Version::V4] {
        let backend = Shared::new();
        let mut comp =
            CompoundFile::create_with_version(version, backend.clone())
                .unwrap();
        comp.create_storage_all("/st/inner").unwrap();
        comp.create_storage("/other").unwrap();
        comp.create_stream("/st/inner/data")
            .unwrap()
            .write_all(b"hello")
            .unwrap();
        comp.create_stream("/big").unwrap().write_all(&[7u8; 5000]).unwrap();
        let clsid = Uuid::from_u128(0x1234_5678_9abc_def0_1122_3344_5566_7788);
        comp.set_storage_clsid("/st", clsid).unwrap();
        comp.set_state_bits("/st", 0xdead_beef).unwrap();
        comp.set_state_bits("/big", 42).unwrap();
        comp.set_created_time("/st", t(123_456_789)).unwrap();
        comp.set_modified_time("/st", t(987_654_321)).unwrap();
        let mut model = model_of(&mut comp);

        // Every refusal comes with the right kind and changes no byte.
        let before = backend.snapshot();
        let long = "x".repeat(32);
        let refusals: Vec<(&str, String, ErrorKind)> = vec![
            ("/nothing", "/x".into(), ErrorKind::NotFound),
            ("/st/nothing/deeper", "/x".into(), ErrorKind::NotFound),
            ("/", "/x".into(), ErrorKind::InvalidInput),
            ("/st/..", "/x".into(), ErrorKind::InvalidInput),
            ("/../st", "/x".into(), ErrorKind::InvalidInput),
            ("/st", "/../x".into(), ErrorKind::InvalidInput),
            ("/st", "/".into(), ErrorKind::AlreadyExists),
            ("/st", "/OTHER".into(), ErrorKind::AlreadyExists),
            ("/st", "/big".into(), ErrorKind::AlreadyExists),
            ("/big", "/st/INNER".into(), ErrorKind::AlreadyExists),
            ("/big", "/nothing/big".into(), ErrorKind::NotFound),
            ("/st", "/big/st".into(), ErrorKind::NotFound),
            ("/big", "/big/x".into(), ErrorKind::NotFound),
            ("/st", "/st/x".into(), ErrorKind::InvalidInput),
            ("/st", "/ST/inner/x".into(), ErrorKind::InvalidInput),
            ("/st/inner", "/st/Inner/x".into(), ErrorKind::InvalidInput),
            ("/big", format!("/{}", long), ErrorKind::InvalidInput),
            ("/big", "/a:b".into(), ErrorKind::InvalidInput),
            ("/big", "/st/a!b".into(), ErrorKind::InvalidInput),
            ("/big", "/st/a\\b".into(), ErrorKind::InvalidInput),
        ];
        for (from, to, kind) in refusals {
            assert_eq!(
                model.rename(from, &to),
                Err(kind),
                "model {} {}",
                from,
                to
            );
            assert_eq!(
                kind_of(comp.rename(from, &to)),
                Some(kind),
                "{} -> {}",
                from,
                to
            );
            assert!(backend.snapshot() == before, "{} -> {} wrote", from, to);
        }
        check_all(&mut comp, &model, "after refusals");

        // A handle opened before the move stays bound to the stream.
        let mut handle = comp.open_stream("/st/inner/data").unwrap();
        handle.seek(SeekFrom::End(0)).unwrap();
        handle.write_all(b", wor").unwrap(); // stays in the handle's buffer

        // Moves and renames: storage with contents, large stream, respelling.
        let moves = [
            ("/st", "/other/Moved Storage"),
            ("/big", "/other/moved storage/inner/BIG"),
            ("/other/MOVED STORAGE/inner", "/in"),
            ("/in", "/IN"),
            ("/in", "/in"),
            ("/other", "/z"),
            ("/z/moved storage", "/z/a name of exactly 31 utf16 unit"),
        ];
        for (from, to) in moves {
            model.rename(from, to).unwrap();
            comp.rename(from, to).unwrap();
            let what = format!("{} -> {}", from, to);
            // The handle's unflushed bytes are not in the file yet, so only
            // the structure is compared here.
            check_structure(&backend.snapshot()).unwrap();
            diff_readonly(&comp, &model)
                .unwrap_or_else(|e| panic!("{}: {}", what, e));
        }
        handle.write_all(b"ld").unwrap();
        handle.flush().unwrap();
        drop(handle);
        let comps = parse_path("/IN/data").unwrap();
        model.root.find_mut(&comps).unwrap().data =
            Some(b"hello, world".to_vec());
        check_all(&mut comp, &model, "after moves");
        check_image(&backend.snapshot(), &model, "after moves");
        // Metadata travelled with the storage.
        let entry = comp.entry("/z/A NAME OF EXACTLY 31 UTF16 UNIT").unwrap();
        assert_eq!(entry.name(), "a name of exactly 31 utf16 unit");
        assert_eq!(*entry.clsid(), clsid);
        assert_eq!(entry.state_bits(), 0xdead_beef);
        assert_eq!(entry.created(), t(123_456_789));
        assert_eq!(entry.modified(), t(987_654_321));
        assert_eq!(comp.entry("/in/big").unwrap().state_bits(), 42);
        assert_eq!(comp.entry("/in/big").unwrap().len(), 5000);

        // A handle follows its stream, not the path it was opened under.
        let mut handle = comp.open_stream("/in/big").unwrap();
        comp.rename("/in/big", "/elsewhere").unwrap();
        comp.create_stream("/in/big").unwrap().write_all(b"impostor").unwrap();
        handle.write_all(b"real").unwrap();
        handle.flush().unwrap();
        drop(handle);
        let mut got = Vec::new();
        comp.open_stream("/elsewhere").unwrap().read_to_end(&mut got).unwrap();
        assert_eq!(got.len(), 5000);
        assert_eq!(&got[..6], b"real\x07\x07");
        got.clear();
        comp.open_stream("/IN/BIG").unwrap().read_to_end(&mut got).unwrap();
        assert_eq!(got, b"impostor");
        let model = model_of(&mut comp);
        check_image(&backend.snapshot(), &model, "handle follows stream");
    }
}

//===========================================================================//
// C06/C07: handles stay bound to their streams across renames.

#[test]
fn handles_survive_namespace_changes() {
    let with_rename = has_rename();
    for &version in &[Version::V3, Version::V4] {
        for &buffer in &[0usize, 100, 8192] {
            let mut rng = Rng::new(buffer as u64 + 17);
            let backend = Shared::new();
            drop(
                CompoundFile::create_with_version(version, backend.clone())
                    .unwrap(),
            );
            let mut comp = OpenOptions::new()
                .max_buffer_size(buffer)
                .open_with(backend.clone())
                .unwrap();
            comp.create_storage("/s").unwrap();
            comp.create_storage("/d").unwrap();
            let names = ["m", "f", "t", "c", "j", "h", "l", "k"];
            let mut handles = Vec::new();
            let mut contents: Vec<Vec<u8>> = Vec::new();
            for (i, name) in names.iter().enumerate() {
                let data = rng.bytes([10, 64, 4000, 4096, 9000][i % 5]);
                let mut stream =
                    comp.create_stream(format!("/s/{}", name)).unwrap();
                stream.write_all(&data).unwrap();
                handles.push(stream);
                contents.push(data);
            }
            // Where each stream currently is.
            let mut paths: Vec<String> =
                names.iter().map(|n| format!("/s/{}", n)).collect();
            let mut parent = "/s".to_string();
            for round in 0..40 {
                // Some I/O through a random handle, partly left unflushed.
                let i = rng.below(handles.len());
                let at = rng.below(contents[i].len() + 1);
                let chunk_len = rng.below(300);
                let chunk = rng.bytes(chunk_len);
                let h = &mut handles[i];
                assert_eq!(
                    h.seek(SeekFrom::Start(at as u64)).unwrap(),
                    at as u64
                );
                h.write_all(&chunk).unwrap();
                let end = at + chunk.len();
                if contents[i].len() < end {
                    contents[i].resize(end, 0);
                }
                contents[i][at..end].copy_from_slice(&chunk);
                if rng.chance(30) {
                    let new_len = rng.below(contents[i].len() + 2000);
                    h.set_len(new_len as u64).unwrap();
                    contents[i].resize(new_len, 0);
                }
                assert_eq!(h.len(), contents[i].len() as u64);
                // A change of the namespace.
                if with_rename {
                    match round % 4 {
                        0 => {
                            let j = rng.below(names.len());
                            let new = format!("{}/r{}", parent, round);
                            comp.rename(&paths[j], &new).unwrap();
                            paths[j] = new;
                        }
                        1 => {
                            let new = format!("/d/p{}", round);
                            comp.rename(&parent, &new).unwrap();
                            for p in paths.iter_mut() {
                                *p = p.replacen(&parent, &new, 1);
                            }
                            parent = new;
                        }
                        2 => {
                            let j = rng.below(names.len());
                            let new = format!("/d/x{}", round);
                            comp.rename(&paths[j], &new).unwrap();
                            paths[j] = new;
                        }
                        _ => {
                            let j = rng.below(names.len());
                            let new = format!("{}/y{}", parent, round);
                            comp.rename(&paths[j], &new).unwrap();
                            paths[j] = new;
                        }
                    }
                } else {
                    let extra = format!("/d/e{}", round % 3);
                    if comp.exists(&extra) {
                        comp.remove_stream(&extra).unwrap();
                    } else {
                        comp.create_stream(&extra)
                            .unwrap()
                            .write_all(&chunk)
                            .unwrap();
                    }
                }
                // Reading through the handles sees what was written.
                let k = rng.below(handles.len());
                let mut got = Vec::new();
                handles[k].seek(SeekFrom::Start(0)).unwrap();
                handles[k].read_to_end(&mut got).unwrap();
                assert!(got == contents[k], "round {} handle {}", round, k);
            }
            for h in handles.iter_mut() {
                h.flush().unwrap();
            }
            drop(handles);
            for (path, data) in paths.iter().zip(contents.iter()) {
                let mut got = Vec::new();
                comp.open_stream(path).unwrap().read_to_end(&mut got).unwrap();
                assert!(&got == data, "{}", path);
            }
            let model = model_of(&mut comp);
            assert_eq!(
                model.paths().len(),
                1 + 2
                    + names.len()
                    + if with_rename {
                        0
                    } else {
                        comp.read_storage("/d").unwrap().count()
                    }
            );
            check_image(&backend.snapshot(), &model, "handles");
        }
    }
}

//===========================================================================//
// C13/C11: write failures at every position of a directory operation.

/// Builds a file whose sibling tree under /S has entries with two children
/// and a predecessor deep in the left subtree:
///
/// ```text
///            m
///          /   \
///         f     t
///        / \
///       c   j
///          / \
///         h   l
///            /
///           k
/// ```
/// `m`, `f` and `c` are empty storages (so that the unchanged library can
/// remove them), the others are streams.
fn build_fault_scenario(
    version: Version,
    backend: &Shared,
) -> CompoundFile<Shared> {
    let mut comp =
        CompoundFile::create_with_version(version, backend.clone()).unwrap();
    comp.create_storage("/S").unwrap();
    comp.create_storage("/U").unwrap();
    comp.create_stream("/r").unwrap().write_all(&[1u8; 100]).unwrap();
    for (i, name) in
        ["m", "f", "t", "c", "j", "h", "l", "k"].iter().enumerate()
    {
        let path = format!("/S/{}", name);
        if ["m", "f", "c"].contains(name) {
            comp.create_storage(&path).unwrap();
        } else {
            let len = [70usize, 4096, 5000, 0, 200][i % 5];
            let data: Vec<u8> = (0..len).map(|x| (x + i) as u8).collect();
            comp.create_stream(&path).unwrap().write_all(&data).unwrap();
        }
    }
    comp.create_stream("/U/u").unwrap().write_all(&[2u8; 4500]).unwrap();
    for path in ["/S", "/U", "/S/m", "/S/f", "/S/c"] {
        comp.set_created_time(path, t(5_000_000)).unwrap();
        comp.set_modified_time(path, t(6_000_000)).unwrap();
    }
    comp.flush().unwrap();
    comp
}

#[derive(Clone, Debug)]
enum FaultOp {
    Rename(&'static str, &'static str),
    RemoveStorage(&'static str),
}

impl FaultOp {
    fn run(&self, comp: &mut CompoundFile<Shared>) -> io::Result<()> {
        match *self {
            FaultOp::Rename(from, to) => comp.rename(from, to),
            FaultOp::RemoveStorage(path) => comp.remove_storage(path),
        }
    }
    fn apply(&self, model: &mut Model) -> MResult {
        match *self {
            FaultOp::Rename(from, to) => model.rename(from, to),
            FaultOp::RemoveStorage(path) => model.remove_storage(path),
        }
    }
}

/// True if `part` is what remains of `whole` after some subtrees were lost.
fn is_remainder(part: &Node, whole: &Node, lost: &mut usize) -> bool {
    let mut same = part.clone();
    same.kids.clear();
    let mut other = whole.clone();
    other.kids.clear();
    if same != other {
        return false;
    }
    let mut part_kids = part.kids.iter().peekable();
    for kid in whole.kids.iter() {
        match part_kids.peek() {
            Some(p) if key(&p.name) == key(&kid.name) => {
                if !is_remainder(p, kid, lost) {
                    return false;
                }
                part_kids.next();
            }
            _ => *lost += 1,
        }
    }
    part_kids.next().is_none()
}

#[test]
fn write_faults_during_directory_operations() {
    let ops: Vec<FaultOp> = if has_rename() {
        vec![
            FaultOp::Rename("/S/m", "/U/m2"),
            FaultOp::Rename("/S/f", "/S/zz"),
            FaultOp::Rename("/S/j", "/S/m/j"),
            FaultOp::Rename("/S/k", "/k"),
            FaultOp::Rename("/S", "/U/S"),
            FaultOp::Rename("/S/t", "/S/T"),
            FaultOp::Rename("/r", "/S/c/r"),
            FaultOp::RemoveStorage("/S/m"),
            FaultOp::RemoveStorage("/S/f"),
        ]
    } else {
        vec![
            FaultOp::RemoveStorage("/S/m"),
            FaultOp::RemoveStorage("/S/f"),
            FaultOp::RemoveStorage("/S/c"),
        ]
    };
    let mut injected = 0;
    let mut linked_twice = 0;
    for &version in &[Version::V3, Version::V4] {
        for op in ops.iter() {
            for &persistent in &[false, true] {
                for position in 0.. {
                    let backend = Shared::new();
                    let mut comp = build_fault_scenario(version, &backend);
                    let before = model_of(&mut comp);
                    let what = format!(
                        "{:?} {:?} fault {} {}",
                        version, op, position, persistent
                    );
                    backend.arm(position, persistent);
                    let result = op.run(&mut comp);
                    let faults = backend.disarm();
                    if faults == 0 {
                        // The operation needed fewer steps than that.
                        result.unwrap();
                        let after = model_of(&mut comp);
                        let mut expected = Model { root: before.root.clone() };
                        op.apply(&mut expected).unwrap();
                        assert!(after.root == expected.root, "{}", what);
                        check_image(&backend.snapshot(), &expected, &what);
                        break;
                    }
                    injected += 1;
                    // C13: the failure is reported.
                    assert!(result.is_err(), "{}: fault swallowed", what);
                    if std::env::var("FC_TRACE").is_ok() {
                        let found: Vec<_> = comp.walk().collect();
                        println!("{}: {:?}", what, found);
                    }
                    // The library changes one link at a time, and one of
                    // its steps (handing the right subtree of the entry to
                    // its predecessor) leaves that subtree linked twice
                    // until the next step.  A failure just there is a known
                    // weak spot, also of the unchanged library: entries are
                    // listed twice and the image does not reopen.  All that
                    // is asked then is that nothing panics or hangs; with
                    // the retry-safe lookup of the new code, a retry must
                    // moreover complete the operation.
                    let listed: Vec<String> = comp
                        .walk()
                        .map(|e| e.path().to_str().unwrap().to_string())
                        .collect();
                    let distinct: HashSet<&String> = listed.iter().collect();
                    if distinct.len() != listed.len() {
                        linked_twice += 1;
                        let retried = op.run(&mut comp);
                        if has_rename() {
                            retried.unwrap();
                            let mut expected =
                                Model { root: before.root.clone() };
                            op.apply(&mut expected).unwrap();
                            check_all(&mut comp, &expected, &what);
                            check_image(&backend.snapshot(), &expected, &what);
                        }
                        let _ = comp.create_stream("/S/zzz");
                        let _ = comp.remove_stream("/S/h");
                        let _ = comp.walk().count();
                        continue;
                    }
                    // Otherwise memory and file agree, and whatever is still
                    // there is undamaged.
                    let mut model = model_of(&mut comp);
                    let mut lost = 0;
                    assert!(
                        is_remainder(&model.root, &before.root, &mut lost),
                        "{}",
                        what
                    );
                    assert!(lost <= 2, "{}: lost {}", what, lost);
                    let image = backend.snapshot();
                    for strict in [false, true] {
                        let cursor = io::Cursor::new(image.clone());
                        let mut reopened = if strict {
                            CompoundFile::open_strict(cursor)
                        } else {
                            CompoundFile::open(cursor)
                        }
                        .unwrap_or_else(|e| panic!("{}: reopen: {}", what, e));
                        check_all(&mut reopened, &model, &what);
                    }
                    // A retry and further work behave like the model.
                    let retried = op.run(&mut comp);
                    let expected = op.apply(&mut model);
                    assert_eq!(
                        kind_of(retried),
                        expected.err(),
                        "{}: retry",
                        what
                    );
                    check_all(&mut comp, &model, &what);
                    for (path, len) in
                        [("/S/zzz", 70usize), ("/U/S/zzz", 70), ("/k", 4097)]
                    {
                        let expected = model.create_stream(path, true);
                        let actual = comp
                            .create_stream(path)
                            .and_then(|mut s| s.write_all(&vec![9u8; len]));
                        assert_eq!(
                            kind_of(actual),
                            expected.err(),
                            "{}: {}",
                            what,
                            path
                        );
                        if expected.is_ok() {
                            let comps = parse_path(path).unwrap();
                            model.root.find_mut(&comps).unwrap().data =
                                Some(vec![9u8; len]);
                        }
                    }
                    let expected = model.remove_stream("/U/u");
                    assert_eq!(
                        kind_of(comp.remove_stream("/U/u")),
                        expected.err(),
                        "{}",
                        what
                    );
                    let expected = model.remove_storage("/S/m");
                    assert_eq!(
                        kind_of(comp.remove_storage("/S/m")),
                        expected.err(),
                        "{}",
                        what
                    );
                    check_all(&mut comp, &model, &what);
                    let live = model_of(&mut comp);
                    for strict in [false, true] {
                        let cursor = io::Cursor::new(backend.snapshot());
                        let mut reopened = if strict {
                            CompoundFile::open_strict(cursor)
                        } else {
                            CompoundFile::open(cursor)
                        }
                        .unwrap_or_else(|e| panic!("{}: reopen: {}", what, e));
                        check_all(&mut reopened, &live, &what);
                    }
                }
            }
        }
    }
    println!(
        "{} faults injected, {} left a subtree linked twice",
        injected, linked_twice
    );
    assert!(injected > 50, "only {} faults injected", injected);
    assert!(linked_twice < injected / 4, "{} of {}", linked_twice, injected);
}

//===========================================================================//
// C04/C03: sibling trees with red nodes, as other writers produce them.

/// A file whose storage /P holds a perfect sibling tree of 15 entries,
/// coloured black, red, black, red by level (a valid red-black tree).
fn build_red_black_image(version: Version) -> Vec<u8> {
    let backend = Shared::new();
    let mut comp =
        CompoundFile::create_with_version(version, backend.clone()).unwrap();
    comp.create_storage("/P").unwrap();
    comp.set_created_time("/P", t(1)).unwrap();
    comp.set_modified_time("/P", t(2)).unwrap();
    let order = [
        "h", "d", "l", "b", "f", "j", "n", "a", "c", "e", "g", "i", "k", "m",
        "o",
    ];
    for (i, name) in order.iter().enumerate() {
        let path = format!("/P/{}", name);
        if i % 4 == 1 {
            comp.create_storage(&path).unwrap();
            comp.set_created_time(&path, t(10 + i as u64)).unwrap();
            comp.set_modified_time(&path, t(20 + i as u64)).unwrap();
            comp.create_stream(format!("{}/inside", path))
                .unwrap()
                .write_all(&[i as u8; 300])
                .unwrap();
        } else {
            comp.create_stream(&path)
                .unwrap()
                .write_all(&vec![i as u8; i * 400])
                .unwrap();
        }
    }
    comp.flush().unwrap();
    drop(comp);
    let mut image = backend.snapshot();
    let layout = parse_layout(&image).unwrap();
    for entry in layout.entries.iter() {
        let name = String::from_utf16(&entry.name).unwrap();
        if let Some(index) = order.iter().position(|n| *n == name) {
            let level = (index + 1).ilog2();
            if level % 2 == 1 && entry.kind != 0 && entry.size != 300 {
                image[entry.offset + 67] = 0; // red
            }
        }
    }
    check_structure(&image).unwrap();
    CompoundFile::open_strict(io::Cursor::new(image.clone())).unwrap();
    let reds = parse_layout(&image)
        .unwrap()
        .entries
        .iter()
        .filter(|e| e.kind != 0 && e.red)
        .count();
    assert_eq!(reds, 10);
    image
}

#[test]
fn renames_in_red_black_trees() {
    if !has_rename() {
        return;
    }
    for &version in &[Version::V3, Version::V4] {
        let image = build_red_black_image(version);
        let names = [
            "a", "b", "c", "d", "e", "f", "g", "h", "i", "j", "k", "l", "m",
            "n", "o",
        ];
        // Take each entry out of the tree in turn.
        for name in names {
            for to in ["/P/zz", "/zz", "/P/h2", "/P/0"] {
                let backend = Shared::from_bytes(image.clone());
                let mut comp =
                    CompoundFile::open_strict(backend.clone()).unwrap();
                let mut model = model_of(&mut comp);
                let from = format!("/P/{}", name);
                model.rename(&from, to).unwrap();
                comp.rename(&from, to).unwrap();
                let what = format!("{} -> {}", from, to);
                check_all(&mut comp, &model, &what);
                check_image(&backend.snapshot(), &model, &what);
            }
        }
        // Random sequences of renames.
        for seed in 0..10 {
            let mut rng = Rng::new(seed + 100);
            let backend = Shared::from_bytes(image.clone());
            let mut comp = CompoundFile::open(backend.clone()).unwrap();
            let mut model = model_of(&mut comp);
            for round in 0..25 {
                let paths = model.paths();
                let from: &Vec<String> = rng.pick(&paths[1..]);
                let from = join(from);
                let storages: Vec<&Vec<String>> = paths
                    .iter()
                    .filter(|p| !model.root.find(p).unwrap().is_stream())
                    .collect();
                let parent = *rng.pick(&storages);
                let to = format!("{}/{}", join(parent), rng.pick(&names));
                let to = to.replace("//", "/");
                let expected = model.rename(&from, &to);
                let actual = comp.rename(&from, &to);
                let what = format!(
                    "seed {} round {}: {} -> {}",
                    seed, round, from, to
                );
                assert_eq!(kind_of(actual), expected.err(), "{}", what);
                check_all(&mut comp, &model, &what);
                check_image(&backend.snapshot(), &model, &what);
            }
        }
    }
}

/// Reproduces a defect of the library as it was before `rename` was added:
/// removing an entry from a sibling tree with red nodes can leave two
/// adjacent red nodes, so that the file no longer opens in strict mode.
/// Ignored by default, because it fails on the unchanged source.
#[test]
#[ignore]
fn removal_in_red_black_tree_keeps_colouring_valid() {
    let image = build_red_black_image(Version::V4);
    let backend = Shared::from_bytes(image);
    let mut comp = CompoundFile::open_strict(backend.clone()).unwrap();
    // `b` is black, its parent `d` is red, and so are its children `a` and
    // `c`, one of which takes its place.
    comp.remove_stream("/P/b").unwrap();
    let model = model_of(&mut comp);
    drop(comp);
    if let Err(err) =
        CompoundFile::open_strict(io::Cursor::new(backend.snapshot()))
    {
        panic!("strict reopen after remove_stream(/P/b): {}", err);
    }
    check_image(&backend.snapshot(), &model, "after remove_stream(/P/b)");
}

//===========================================================================//
// C14: shared readers in other threads while this thread uses stream handles
// (that were opened before the objects were renamed).

#[test]
fn shared_readers_during_stream_io() {
    let with_rename = has_rename();
    let backend = Shared::new();
    let mut comp = CompoundFile::create(backend.clone()).unwrap();
    comp.create_storage("/x").unwrap();
    comp.create_storage("/keep").unwrap();
    let mut handles = Vec::new();
    let mut contents = Vec::new();
    let mut paths = Vec::new();
    for i in 0..4 {
        let mut stream = comp.create_stream(format!("/x/s{}", i)).unwrap();
        let content = vec![i as u8; 3000 + 1000 * i];
        stream.write_all(&content).unwrap();
        handles.push(stream);
        contents.push(content);
        paths.push(format!("/x/s{}", i));
    }
    if with_rename {
        comp.rename("/x/s1", "/x/one").unwrap();
        comp.rename("/x/s2", "/keep/two").unwrap();
        comp.rename("/x", "/keep/x").unwrap();
        paths = vec![
            "/keep/x/s0".to_string(),
            "/keep/x/one".to_string(),
            "/keep/two".to_string(),
            "/keep/x/s3".to_string(),
        ];
    }
    // The compound file may also be used from another thread while this
    // thread goes on using its handles.
    std::thread::scope(|scope| {
        let exclusive = &mut comp;
        let paths = &mut paths;
        let renamer = scope.spawn(move || {
            for round in 0..40 {
                if with_rename {
                    let i = round % paths.len();
                    let new = format!("/keep/r{}_{}", i, round);
                    exclusive.rename(&paths[i], &new).unwrap();
                    paths[i] = new;
                } else {
                    let extra = format!("/keep/e{}", round % 5);
                    if exclusive.exists(&extra) {
                        exclusive.remove_storage(&extra).unwrap();
                    } else {
                        exclusive.create_storage(&extra).unwrap();
                    }
                }
            }
        });
        let mut rng = Rng::new(7);
        for round in 0..200 {
            let i = rng.below(handles.len());
            let at = rng.below(contents[i].len() + 1);
            let chunk_len = rng.below(900);
            let chunk = rng.bytes(chunk_len);
            handles[i].seek(SeekFrom::Start(at as u64)).unwrap();
            handles[i].write_all(&chunk).unwrap();
            let end = at + chunk.len();
            if contents[i].len() < end {
                contents[i].resize(end, 0);
            }
            contents[i][at..end].copy_from_slice(&chunk);
            if round % 5 == 0 {
                handles[i].flush().unwrap();
            }
        }
        renamer.join().unwrap();
    });
    let expected_paths: Vec<String> =
        comp.walk().map(|e| e.path().to_str().unwrap().to_string()).collect();
    let shared = &comp;
    std::thread::scope(|scope| {
        let readers: Vec<_> = (0..3)
            .map(|_| {
                let expected_paths = &expected_paths;
                scope.spawn(move || {
                    for _ in 0..150 {
                        let found: Vec<String> = shared
                            .walk()
                            .map(|e| e.path().to_str().unwrap().to_string())
                            .collect();
                        assert_eq!(&found, expected_paths);
                        for p in found.iter() {
                            assert!(shared.exists(p));
                            let entry = shared.entry(p).unwrap();
                            assert_eq!(entry.is_stream(), shared.is_stream(p));
                            if entry.is_storage() {
                                assert!(shared.is_storage(p));
                                let _ =
                                    shared.read_storage(p).unwrap().count();
                            }
                        }
                        assert!(shared.root_entry().is_root());
                    }
                })
            })
            .collect();
        let mut rng = Rng::new(99);
        for round in 0..400 {
            let i = rng.below(handles.len());
            let at = rng.below(contents[i].len() + 1);
            let chunk_len = rng.below(700);
            let chunk = rng.bytes(chunk_len);
            let handle = &mut handles[i];
            handle.seek(SeekFrom::Start(at as u64)).unwrap();
            handle.write_all(&chunk).unwrap();
            let end = at + chunk.len();
            if contents[i].len() < end {
                contents[i].resize(end, 0);
            }
            contents[i][at..end].copy_from_slice(&chunk);
            if round % 7 == 0 {
                handle.flush().unwrap();
            }
            let from = rng.below(contents[i].len());
            let mut got = vec![0u8; (contents[i].len() - from).min(500)];
            handle.seek(SeekFrom::Start(from as u64)).unwrap();
            handle.read_exact(&mut got).unwrap();
            assert!(got[..] == contents[i][from..from + got.len()]);
        }
        for reader in readers {
            reader.join().unwrap();
        }
    });
    for handle in handles.iter_mut() {
        handle.flush().unwrap();
    }
    drop(handles);
    for (path, content) in paths.iter().zip(contents.iter()) {
        let mut got = Vec::new();
        comp.open_stream(path).unwrap().read_to_end(&mut got).unwrap();
        assert!(&got == content, "{}", path);
    }
    let model = model_of(&mut comp);
    check_image(&backend.snapshot(), &model, "threads");
}

//===========================================================================//
// C15: net-zero cycles do not grow the file.

#[test]
fn net_zero_cycles_keep_the_file_size() {
    let with_rename = has_rename();
    for &version in &[Version::V3, Version::V4] {
        for &size in &[100usize, 5000] {
            let backend = Shared::new();
            let mut comp =
                CompoundFile::create_with_version(version, backend.clone())
                    .unwrap();
            comp.create_storage_all("/st/deep").unwrap();
            comp.create_stream("/a")
                .unwrap()
                .write_all(&vec![1u8; size])
                .unwrap();
            comp.create_stream("/st/b")
                .unwrap()
                .write_all(&vec![2u8; 7000])
                .unwrap();
            let reference = model_of(&mut comp);
            let mut sizes = Vec::new();
            for _ in 0..6 {
                let mut stream = comp.create_stream("/st/tmp").unwrap();
                stream.write_all(&vec![3u8; size]).unwrap();
                drop(stream);
                if with_rename {
                    comp.rename("/a", "/st/deep/A2").unwrap();
                    comp.rename("/st", "/moved").unwrap();
                    comp.rename("/moved/tmp", "/tmp").unwrap();
                    comp.rename("/moved", "/st").unwrap();
                    comp.rename("/st/deep/a2", "/a").unwrap();
                    comp.remove_stream("/tmp").unwrap();
                } else {
                    comp.remove_stream("/st/tmp").unwrap();
                }
                sizes.push(backend.snapshot().len());
                check_all(&mut comp, &reference, "cycle");
            }
            assert!(sizes[1..].iter().all(|&s| s == sizes[1]), "{:?}", sizes);
            check_image(&backend.snapshot(), &reference, "cycles");
        }
    }
}

//===========================================================================//
// C18: the same history gives the same bytes on every backend and for every
// way of splitting transfers.

fn run_pinned_history<F: Read + Write + Seek>(
    inner: F,
    snapshot: &dyn Fn() -> Vec<u8>,
    version: Version,
    with_rename: bool,
) -> Model {
    let mut comp = CompoundFile::create_with_version(version, inner).unwrap();
    let mut driver = Driver::new(4242, with_rename);
    driver.pin_times = true;
    for _ in 0..120 {
        driver.step(&mut comp, snapshot);
    }
    comp.flush().unwrap();
    driver.model
}

#[test]
fn same_bytes_on_every_backend() {
    let with_rename = has_rename();
    for &version in &[Version::V3, Version::V4] {
        let plain = Shared::new();
        let live = plain.clone();
        let model1 = run_pinned_history(
            plain.clone(),
            &move || live.snapshot(),
            version,
            with_rename,
        );

        let chunked = Shared::new();
        chunked.set_chunking(5, 3);
        let live = chunked.clone();
        let model2 = run_pinned_history(
            chunked.clone(),
            &move || live.snapshot(),
            version,
            with_rename,
        );
        assert!(model1.root == model2.root);
        assert!(plain.snapshot() == chunked.snapshot(), "chunked transfers");

        let path = std::env::temp_dir().join(format!(
            "cfb_feature_check_{}_{:?}.cfb",
            std::process::id(),
            version
        ));
        let file = std::fs::OpenOptions::new()
            .read(true)
            .write(true)
            .create(true)
            .truncate(true)
            .open(&path)
            .unwrap();
        let path2 = path.clone();
        let model3 = run_pinned_history(
            file,
            &move || std::fs::read(&path2).unwrap(),
            version,
            with_rename,
        );
        let on_disk = std::fs::read(&path).unwrap();
        std::fs::remove_file(&path).unwrap();
        assert!(model1.root == model3.root);
        assert!(plain.snapshot() == on_disk, "real file");

        let again = Shared::new();
        let live = again.clone();
        run_pinned_history(
            again.clone(),
            &move || live.snapshot(),
            version,
            with_rename,
        );
        assert!(plain.snapshot() == again.snapshot(), "second run");
    }
}

//===========================================================================//
// C11: mutating damaged files that permissive open accepts never panics.

#[test]
fn damaged_files_do_not_panic() {
    let with_rename = has_rename();
    let mut accepted = 0;
    for &version in &[Version::V3, Version::V4] {
        let backend = Shared::new();
        let mut comp = build_fault_scenario(version, &backend);
        for i in 0..12 {
            comp.create_stream(format!("/U/n{}", (i * 7) % 12))
                .unwrap()
                .write_all(&vec![i as u8; 90 * i])
                .unwrap();
        }
        comp.create_storage_all("/U/n0s/deep/deeper").unwrap();
        drop(comp);
        let image = backend.snapshot();
        let layout = parse_layout(&image).unwrap();
        let used: Vec<&RawEntry> =
            layout.entries.iter().filter(|e| e.kind != 0).collect();
        for seed in 0..400u64 {
            let mut rng = Rng::new(seed + 1000);
            let mut damaged = image.clone();
            for _ in 0..1 + rng.below(3) {
                let entry = rng.pick(&used);
                match rng.below(8) {
                    0 => {
                        // Another letter in the name.
                        let unit = rng.below(entry.name.len());
                        damaged[entry.offset + 2 * unit] =
                            b'a' + rng.below(26) as u8;
                    }
                    1 => {
                        damaged[entry.offset + 66] =
                            [1u8, 2, 2, 1, 5][rng.below(5)]
                    }
                    2 => damaged[entry.offset + 67] ^= 1,
                    3..=5 => {
                        // A link to some other entry, or none.
                        let field = 68 + 4 * rng.below(3);
                        let target = if rng.chance(25) {
                            NOSTREAM
                        } else {
                            rng.below(layout.entries.len() + 1) as u32
                        };
                        damaged
                            [entry.offset + field..entry.offset + field + 4]
                            .copy_from_slice(&target.to_le_bytes());
                    }
                    6 => {
                        let start = rng.below(40) as u32;
                        damaged[entry.offset + 116..entry.offset + 120]
                            .copy_from_slice(&start.to_le_bytes());
                    }
                    _ => {
                        let size =
                            [0u64, 1, 63, 4095, 4096, 100_000][rng.below(6)];
                        damaged[entry.offset + 120..entry.offset + 128]
                            .copy_from_slice(&size.to_le_bytes());
                    }
                }
            }
            let backend = Shared::from_bytes(damaged);
            let mut comp = match CompoundFile::open(backend.clone()) {
                Ok(comp) => comp,
                Err(_) => continue,
            };
            accepted += 1;
            for round in 0..30 {
                let entries: Vec<cfb::Entry> = comp.walk().take(200).collect();
                let a = rng.pick(&entries).path().to_path_buf();
                let b = rng.pick(&entries).path().to_path_buf();
                let name = *rng.pick(&["a", "M", "g", "zz", "n5", "k", "S"]);
                let target = b.join(name);
                match (round + rng.below(3)) % 7 {
                    0..=2 if with_rename => {
                        let _ = comp.rename(&a, &target);
                    }
                    3 => {
                        let _ = comp.remove_stream(&a);
                    }
                    4 => {
                        let _ = comp.remove_storage(&a);
                    }
                    5 => {
                        let _ = comp.create_storage(&target);
                    }
                    _ => {
                        if let Ok(mut stream) = comp.create_stream(&target) {
                            let _ = stream.write_all(&[5u8; 500]);
                        }
                    }
                }
                if let Ok(mut stream) = comp.open_stream(&a) {
                    let mut sink = Vec::new();
                    let _ = stream.read_to_end(&mut sink);
                }
            }
            let _ = comp.flush();
        }
    }
    assert!(accepted > 100, "only {} damaged files accepted", accepted);
}

/// A sibling tree that is in order only locally (each entry against its own
/// children) is accepted by open, but lookups and insertions then disagree
/// about where a name belongs.  Renaming must answer with an error, not panic.
#[test]
fn rename_in_tree_that_is_out_of_order() {
    if !has_rename() {
        return;
    }
    for &version in &[Version::V3, Version::V4] {
        let backend = Shared::new();
        drop(build_fault_scenario(version, &backend));
        let mut image = backend.snapshot();
        let layout = parse_layout(&image).unwrap();
        // `l` is the in-order predecessor of `m`; call it `p` instead.
        let entry = layout
            .entries
            .iter()
            .find(|e| e.kind == 2 && e.name == [b'l' as u16])
            .unwrap();
        image[entry.offset] = b'p';
        let backend = Shared::from_bytes(image);
        let mut comp = CompoundFile::open(backend.clone()).unwrap();
        assert!(!comp.exists("/S/p"));
        let result = comp.rename("/S/m", "/S/p");
        assert_eq!(kind_of(result), Some(ErrorKind::InvalidData));
        let listed = comp.walk().count();
        assert!(listed >= 10);
        comp.create_stream("/S/q").unwrap().write_all(&[1u8; 100]).unwrap();
        let _ = comp.rename("/S/t", "/S/p");
        let _ = comp.remove_stream("/S/p");
        CompoundFile::open(io::Cursor::new(backend.snapshot())).unwrap();
    }
}
