//! Behavioural checks for "robust open": bounded / fallible allocation while
//! a compound file is opened, without changing which byte strings are
//! accepted and what they mean.
//!
//! Only the public API and std are used.  Everything is deterministic (own
//! PRNG, pinned timestamps), so that the verdicts of `open` over a large
//! corpus of hostile files can be compared with fingerprints that were
//! recorded with the library as it was BEFORE the change.

use cfb::{CompoundFile, Version};
use std::alloc::{GlobalAlloc, Layout, System};
use std::cell::Cell;
use std::collections::BTreeMap;
use std::io::{self, Cursor, Read, Seek, SeekFrom, Write};
use std::time::{Duration, UNIX_EPOCH};

//===========================================================================//
// A counting allocator: live and peak bytes per thread.

struct Counting;

thread_local! {
    static LIVE: Cell<usize> = const { Cell::new(0) };
    static PEAK: Cell<usize> = const { Cell::new(0) };
}

fn note_alloc(size: usize) {
    let _ = LIVE.try_with(|live| {
        let now = live.get().saturating_add(size);
        live.set(now);
        let _ = PEAK.try_with(|peak| {
            if now > peak.get() {
                peak.set(now)
            }
        });
    });
}

fn note_free(size: usize) {
    let _ = LIVE.try_with(|live| live.set(live.get().saturating_sub(size)));
}

unsafe impl GlobalAlloc for Counting {
    unsafe fn alloc(&self, layout: Layout) -> *mut u8 {
        let ptr = System.alloc(layout);
        if !ptr.is_null() {
            note_alloc(layout.size());
        }
        ptr
    }
    unsafe fn dealloc(&self, ptr: *mut u8, layout: Layout) {
        System.dealloc(ptr, layout);
        note_free(layout.size());
    }
    unsafe fn realloc(
        &self,
        ptr: *mut u8,
        layout: Layout,
        new_size: usize,
    ) -> *mut u8 {
        let new_ptr = System.realloc(ptr, layout, new_size);
        if !new_ptr.is_null() {
            note_free(layout.size());
            note_alloc(new_size);
        }
        new_ptr
    }
}

#[global_allocator]
static GLOBAL: Counting = Counting;

/// Runs `f` and returns its result together with the number of bytes by which
/// the live heap of this thread rose above its level at the start.
fn peak_of<T>(f: impl FnOnce() -> T) -> (T, usize) {
    let start = LIVE.with(|live| live.get());
    PEAK.with(|peak| peak.set(start));
    let value = f();
    let peak = PEAK.with(|peak| peak.get());
    (value, peak.saturating_sub(start))
}

//===========================================================================//
// PRNG and hashing.

struct Rng(u64);

impl Rng {
    fn next(&mut self) -> u64 {
        self.0 = self.0.wrapping_add(0x9E37_79B9_7F4A_7C15);
        let mut z = self.0;
        z = (z ^ (z >> 30)).wrapping_mul(0xBF58_476D_1CE4_E5B9);
        z = (z ^ (z >> 27)).wrapping_mul(0x94D0_49BB_1331_11EB);
        z ^ (z >> 31)
    }
    fn below(&mut self, n: usize) -> usize {
        (self.next() % (n as u64)) as usize
    }
    fn chance(&mut self, percent: usize) -> bool {
        self.below(100) < percent
    }
    fn pick<T: Copy>(&mut self, items: &[T]) -> T {
        items[self.below(items.len())]
    }
    fn bytes(&mut self, len: usize) -> Vec<u8> {
        (0..len).map(|_| self.next() as u8).collect()
    }
}

#[derive(Clone, Copy)]
struct Fnv(u64);

impl Fnv {
    fn new() -> Fnv {
        Fnv(0xcbf2_9ce4_8422_2325)
    }
    fn add(&mut self, bytes: &[u8]) {
        for &b in bytes {
            self.0 ^= b as u64;
            self.0 = self.0.wrapping_mul(0x0000_0100_0000_01b3);
        }
        // A separator, so that ("ab","c") differs from ("a","bc").
        self.0 ^= 0xff;
        self.0 = self.0.wrapping_mul(0x0000_0100_0000_01b3);
    }
}

//===========================================================================//
// Observing a compound file.

const FREE: u32 = 0xFFFF_FFFF;
const EOC: u32 = 0xFFFF_FFFE;
const FATSECT: u32 = 0xFFFF_FFFD;
const DIFSECT: u32 = 0xFFFF_FFFC;

fn time_string(t: std::time::SystemTime) -> String {
    match t.duration_since(UNIX_EPOCH) {
        Ok(d) => format!("+{}.{:09}", d.as_secs(), d.subsec_nanos()),
        Err(e) => {
            let d = e.duration();
            format!("-{}.{:09}", d.as_secs(), d.subsec_nanos())
        }
    }
}

/// One line per object, in walk order.  The content of a stream is given as
/// Ok(bytes) or as the kind of the error that reading it produced.
type Dump = Vec<(String, Result<Vec<u8>, io::ErrorKind>)>;

fn dump<F: Read + Seek>(comp: &mut CompoundFile<F>) -> Dump {
    let entries: Vec<cfb::Entry> = comp.walk().collect();
    let mut out = Dump::new();
    for entry in entries {
        let kind = if entry.is_root() {
            "root"
        } else if entry.is_storage() {
            "storage"
        } else {
            "stream"
        };
        let line = format!(
            "{} {:?} name={:?} len={} clsid={} bits={:08x} c={} m={}",
            kind,
            entry.path(),
            entry.name(),
            entry.len(),
            entry.clsid(),
            entry.state_bits(),
            time_string(entry.created()),
            time_string(entry.modified()),
        );
        let content = if entry.is_stream() {
            read_stream(comp, entry.path(), entry.len())
        } else {
            // The listing of a storage is part of its "content".
            let names: Vec<String> = comp
                .read_storage(entry.path())
                .map(|it| it.map(|e| e.name().to_string()).collect())
                .unwrap_or_default();
            Ok(names.join("\u{1}").into_bytes())
        };
        out.push((line, content));
    }
    out
}

fn read_stream<F: Read + Seek>(
    comp: &mut CompoundFile<F>,
    path: &std::path::Path,
    len: u64,
) -> Result<Vec<u8>, io::ErrorKind> {
    let mut stream = comp.open_stream(path).map_err(|e| e.kind())?;
    assert_eq!(stream.len(), len);
    let mut data = Vec::new();
    stream.read_to_end(&mut data).map_err(|e| e.kind())?;
    assert_eq!(data.len() as u64, len, "read_to_end length of {:?}", path);
    // A little seeking: the tail read again must equal the tail read before,
    // and seeking past the end is refused.
    let mid = len / 2;
    assert_eq!(
        stream.seek(SeekFrom::Start(mid)).map_err(|e| e.kind())?,
        mid
    );
    let mut tail = Vec::new();
    stream.read_to_end(&mut tail).map_err(|e| e.kind())?;
    assert_eq!(&data[mid as usize..], &tail[..]);
    assert!(stream.seek(SeekFrom::Start(len + 1)).is_err());
    assert!(stream.seek(SeekFrom::End(1)).is_err());
    assert!(stream.seek(SeekFrom::Current(i64::MIN)).is_err());
    Ok(data)
}

fn dump_digest(d: &Dump) -> u64 {
    let mut h = Fnv::new();
    for (line, content) in d {
        h.add(line.as_bytes());
        match content {
            Ok(bytes) => h.add(bytes),
            Err(kind) => h.add(format!("ERR {:?}", kind).as_bytes()),
        }
    }
    h.0
}

/// The verdict of opening `bytes` in the given mode: None if refused, or the
/// dump of the content.  Also asserts the memory bound of C05.
fn verdict(bytes: &[u8], strict: bool, mem_factor: usize) -> Option<Dump> {
    let (result, peak) = peak_of(|| {
        if strict {
            CompoundFile::open_strict(Cursor::new(bytes))
        } else {
            CompoundFile::open(Cursor::new(bytes))
        }
    });
    if mem_factor > 0 {
        let limit = mem_factor * bytes.len() + 64 * 1024;
        assert!(
            peak <= limit,
            "open of {} bytes (strict={}) needed {} bytes of heap",
            bytes.len(),
            strict,
            peak
        );
    }
    match result {
        Ok(mut comp) => Some(dump(&mut comp)),
        Err(_) => None,
    }
}

/// Opens `bytes` both ways, checks C16 (strict acceptance implies permissive
/// acceptance with the same meaning) and returns both verdicts.
fn both_verdicts(
    bytes: &[u8],
    mem_factor: usize,
) -> (Option<Dump>, Option<Dump>) {
    let permissive = verdict(bytes, false, mem_factor);
    let strict = verdict(bytes, true, mem_factor);
    if let Some(ref s) = strict {
        let p = permissive.as_ref().expect("strict accepts, permissive not");
        assert_eq!(s, p, "strict and permissive disagree");
    }
    (permissive, strict)
}

/// Things a user may do with a file that permissive open accepted (C11):
/// nothing may panic or hang; the outcome is folded into the fingerprint,
/// because the allocator state after open decides where new sectors go.
fn mutate_and_digest(bytes: &[u8], rng: &mut Rng) -> u64 {
    let mut comp = match CompoundFile::open(Cursor::new(bytes.to_vec())) {
        Ok(comp) => comp,
        Err(_) => return 0,
    };
    let mut h = Fnv::new();
    let note = |h: &mut Fnv, what: &str, r: io::Result<()>| {
        h.add(what.as_bytes());
        match r {
            Ok(()) => h.add(b"ok"),
            Err(e) => h.add(format!("{:?}", e.kind()).as_bytes()),
        }
    };
    let big_len = 5000 + rng.below(3000);
    let big = rng.bytes(big_len);
    let small_len = 1 + rng.below(200);
    let small = rng.bytes(small_len);
    let r = comp
        .create_stream("/fc_big")
        .and_then(|mut s| s.write_all(&big).and_then(|_| s.flush()));
    note(&mut h, "big", r);
    let r = comp
        .create_stream("/fc_small")
        .and_then(|mut s| s.write_all(&small).and_then(|_| s.flush()));
    note(&mut h, "small", r);
    let r = comp.create_storage("/fc_dir");
    note(&mut h, "dir", r);
    let pinned = UNIX_EPOCH + Duration::from_secs(1_000_000);
    let _ = comp.set_created_time("/fc_dir", pinned);
    let _ = comp.set_modified_time("/fc_dir", pinned);
    let r = comp.open_stream("/fc_big").and_then(|mut s| {
        s.set_len(100)?;
        s.set_len(9000)?;
        s.flush()
    });
    note(&mut h, "resize", r);
    let streams: Vec<_> = comp
        .walk()
        .filter(|e| e.is_stream())
        .map(|e| e.path().to_path_buf())
        .collect();
    if let Some(victim) = streams.first() {
        let r = comp.remove_stream(victim);
        note(&mut h, "remove", r);
    }
    let r = comp.flush();
    note(&mut h, "flush", r);
    h.add(&dump_digest(&dump(&mut comp)).to_le_bytes());
    let image = comp.into_inner().into_inner();
    h.add(&image);
    // Whatever came out must at least not make open panic.
    let _ = both_verdicts(&image, 0);
    h.0
}

//===========================================================================//
// Deterministic well-formed files made with the library.

fn pin_times<F: Read + Write + Seek>(comp: &mut CompoundFile<F>, path: &str) {
    let t = UNIX_EPOCH + Duration::from_secs(1_600_000_000);
    comp.set_created_time(path, t).unwrap();
    comp.set_modified_time(path, t + Duration::from_secs(5)).unwrap();
}

fn pattern(len: usize, salt: u8) -> Vec<u8> {
    (0..len).map(|i| (i as u8).wrapping_mul(31).wrapping_add(salt)).collect()
}

fn base_file(version: Version, which: usize) -> Vec<u8> {
    let mut comp =
        CompoundFile::create_with_version(version, Cursor::new(Vec::new()))
            .unwrap();
    match which {
        0 => {}
        1 => {
            comp.create_storage("/a").unwrap();
            pin_times(&mut comp, "/a");
            comp.create_storage("/a/b").unwrap();
            pin_times(&mut comp, "/a/b");
            comp.set_state_bits("/a", 0xdead_beef).unwrap();
            for (i, len) in [0usize, 1, 63, 64, 65, 4095].iter().enumerate() {
                let path = format!("/a/s{}", i);
                let mut s = comp.create_stream(&path).unwrap();
                s.write_all(&pattern(*len, i as u8)).unwrap();
                s.flush().unwrap();
            }
            for (i, len) in [4096usize, 4097, 5000].iter().enumerate() {
                let path = format!("/a/b/L{}", i);
                let mut s = comp.create_stream(&path).unwrap();
                s.write_all(&pattern(*len, 100 + i as u8)).unwrap();
                s.flush().unwrap();
            }
        }
        _ => {
            // Enough directory entries for several directory sectors, and
            // (in version 3) enough sectors for more than one FAT sector.
            for i in 0..40 {
                let path = format!("/n{:02}", i);
                let mut s = comp.create_stream(&path).unwrap();
                s.write_all(&pattern(10 + 97 * i, i as u8)).unwrap();
                s.flush().unwrap();
            }
            let mut s = comp.create_stream("/huge").unwrap();
            s.write_all(&pattern(70_000, 7)).unwrap();
            s.flush().unwrap();
        }
    }
    comp.flush().unwrap();
    comp.into_inner().into_inner()
}

//===========================================================================//
// Hand-made files, so that every field is under the control of the test.

fn put32(buf: &mut [u8], offset: usize, value: u32) {
    buf[offset..offset + 4].copy_from_slice(&value.to_le_bytes());
}

fn get32(buf: &[u8], offset: usize) -> u32 {
    let mut b = [0u8; 4];
    b.copy_from_slice(&buf[offset..offset + 4]);
    u32::from_le_bytes(b)
}

struct Raw {
    v4: bool,
    num_dir_sectors: u32,
    num_fat_sectors: u32,
    first_dir: u32,
    first_minifat: u32,
    num_minifat: u32,
    first_difat: u32,
    num_difat: u32,
    header_difat: Vec<u32>,
    sectors: Vec<Vec<u8>>,
    /// Number of bytes cut off the end of the file.
    cut: usize,
}

impl Raw {
    fn sector_len(&self) -> usize {
        if self.v4 {
            4096
        } else {
            512
        }
    }

    fn u32_sector(&self, values: &[u32], fill: u32) -> Vec<u8> {
        let n = self.sector_len() / 4;
        let mut sector = Vec::with_capacity(self.sector_len());
        for i in 0..n {
            let v = values.get(i).copied().unwrap_or(fill);
            sector.extend_from_slice(&v.to_le_bytes());
        }
        sector
    }

    fn dir_entry(
        name: &str,
        obj_type: u8,
        child: u32,
        start: u32,
        len: u64,
    ) -> Vec<u8> {
        let mut e = vec![0u8; 128];
        let units: Vec<u16> = name.encode_utf16().collect();
        for (i, u) in units.iter().enumerate() {
            e[2 * i..2 * i + 2].copy_from_slice(&u.to_le_bytes());
        }
        let name_len = if obj_type == 0 { 0 } else { 2 * (units.len() + 1) };
        e[64..66].copy_from_slice(&(name_len as u16).to_le_bytes());
        e[66] = obj_type;
        e[67] = 1; // black
        put32(&mut e, 68, FREE);
        put32(&mut e, 72, FREE);
        put32(&mut e, 76, child);
        put32(&mut e, 116, start);
        e[120..128].copy_from_slice(&len.to_le_bytes());
        e
    }

    fn dir_sector(&self, entries: &[Vec<u8>]) -> Vec<u8> {
        let mut sector = Vec::new();
        for e in entries {
            sector.extend_from_slice(e);
        }
        while sector.len() < self.sector_len() {
            sector.extend_from_slice(&Raw::dir_entry("", 0, FREE, 0, 0));
        }
        sector
    }

    fn build(&self) -> Vec<u8> {
        let mut h = vec![0u8; 512];
        h[0..8]
            .copy_from_slice(&[0xD0, 0xCF, 0x11, 0xE0, 0xA1, 0xB1, 0x1A, 0xE1]);
        h[24..26].copy_from_slice(&0x3Eu16.to_le_bytes());
        h[26..28]
            .copy_from_slice(&(if self.v4 { 4u16 } else { 3 }).to_le_bytes());
        h[28..30].copy_from_slice(&0xFFFEu16.to_le_bytes());
        h[30..32]
            .copy_from_slice(&(if self.v4 { 12u16 } else { 9 }).to_le_bytes());
        h[32..34].copy_from_slice(&6u16.to_le_bytes());
        put32(&mut h, 40, self.num_dir_sectors);
        put32(&mut h, 44, self.num_fat_sectors);
        put32(&mut h, 48, self.first_dir);
        put32(&mut h, 56, 4096);
        put32(&mut h, 60, self.first_minifat);
        put32(&mut h, 64, self.num_minifat);
        put32(&mut h, 68, self.first_difat);
        put32(&mut h, 72, self.num_difat);
        for i in 0..109 {
            let v = self.header_difat.get(i).copied().unwrap_or(FREE);
            put32(&mut h, 76 + 4 * i, v);
        }
        let mut out = h;
        out.resize(self.sector_len(), 0);
        for s in &self.sectors {
            assert_eq!(s.len(), self.sector_len());
            out.extend_from_slice(s);
        }
        let new_len = out.len() - self.cut.min(out.len());
        out.truncate(new_len);
        out
    }
}

/// A random file around a small valid core: sector 0 is a FAT sector, sector
/// 1 the directory, then the sectors of one stream.  On top of that come the
/// things a hostile writer could add: FAT sectors listed several times, FAT
/// sectors that reach beyond the end of the file and are padded one way or
/// another, DIFAT sectors (marked or not, terminated one way or another),
/// wrong counts in the header, a cut-off last sector.
fn hostile_file(rng: &mut Rng, v4: bool) -> (Vec<u8>, [bool; 3]) {
    let mut raw = Raw {
        v4,
        num_dir_sectors: 0,
        num_fat_sectors: 0,
        first_dir: 1,
        first_minifat: EOC,
        num_minifat: 0,
        first_difat: EOC,
        num_difat: 0,
        header_difat: vec![0],
        sectors: Vec::new(),
        cut: 0,
    };
    let per_fat = raw.sector_len() / 4;
    let per_difat = per_fat - 1;
    let stream_len: u64 = if rng.chance(70) { 4096 + rng.below(600) as u64 } else { 0 };
    let stream_sectors =
        (stream_len as usize + raw.sector_len() - 1) / raw.sector_len();
    let mut fat0: Vec<u32> = vec![FATSECT, EOC];
    for i in 0..stream_sectors {
        let id = 2 + i as u32;
        fat0.push(if i + 1 == stream_sectors { EOC } else { id + 1 });
    }
    let mut entries = vec![Raw::dir_entry(
        "Root Entry",
        5,
        if stream_sectors > 0 { 1 } else { FREE },
        EOC,
        0,
    )];
    if stream_sectors > 0 {
        entries.push(Raw::dir_entry("Data", 2, FREE, 2, stream_len));
    }
    raw.sectors.push(Vec::new()); // placeholder for FAT sector 0
    raw.sectors.push(raw.dir_sector(&entries));
    for i in 0..stream_sectors {
        raw.sectors.push(pattern(raw.sector_len(), i as u8));
    }
    if v4 {
        raw.num_dir_sectors = 1;
    }

    // Extra FAT sectors.
    let fills = [FREE, FREE, FREE, 0, 0, FATSECT, DIFSECT, EOC, 1, 0x7777];
    let num_difat_sectors = if rng.chance(45) { 1 + rng.below(3) } else { 0 };
    let num_extra_fat = if num_difat_sectors > 0 {
        1 + rng.below(3)
    } else {
        rng.below(4)
    };
    let mut extra_fat_ids = Vec::new();
    for _ in 0..num_extra_fat {
        let id = raw.sectors.len() as u32;
        // With DIFAT sectors the extra FAT sectors get listed very often;
        // let most of them be harmless then.
        let harmless = num_difat_sectors > 0 && rng.chance(85);
        let fill = if harmless { FREE } else { rng.pick(&fills) };
        let mut values = vec![fill; per_fat];
        if !harmless && rng.chance(25) {
            let at = rng.below(per_fat);
            values[at] = rng.pick(&fills);
        }
        raw.sectors.push(raw.u32_sector(&values, fill));
        extra_fat_ids.push(id);
        while fat0.len() < id as usize {
            fat0.push(FREE);
        }
        fat0.push(if rng.chance(85) { FATSECT } else { FREE });
    }
    // The list of FAT sectors, possibly with repetitions.
    let mut difat: Vec<u32> = vec![0];
    let listed = if extra_fat_ids.is_empty() { 0 } else { rng.below(6) };
    for _ in 0..listed {
        difat.push(rng.pick(&extra_fat_ids));
    }
    if rng.chance(10) {
        difat.push(0);
    }
    if rng.chance(5) {
        difat.push(rng.pick(&[FREE, 1, 1000, 0x7FFF_FFFF]));
    }
    // DIFAT sectors.
    // Few files get FAT sector 0 listed again among the fillers: that is
    // always refused.
    let poisoned = rng.chance(5);
    let mut tail_entries: Vec<u32> = Vec::new();
    if num_difat_sectors > 0 {
        // The header part must be full before a DIFAT sector is used, at
        // least in a file that wants to be accepted.
        if rng.chance(90) {
            while difat.len() < 109 {
                let v = if poisoned && rng.chance(1) {
                    0
                } else {
                    rng.pick(&extra_fat_ids)
                };
                difat.push(v);
            }
        }
        let count = rng.below(num_difat_sectors * per_difat + 1);
        for _ in 0..count {
            let v = if poisoned && rng.chance(1) {
                0
            } else {
                rng.pick(&extra_fat_ids)
            };
            tail_entries.push(v);
        }
    }
    let first_difat_id = raw.sectors.len() as u32;
    let tail_fill = rng.pick(&[FREE, FREE, FREE, 0]);
    for k in 0..num_difat_sectors {
        let id = raw.sectors.len() as u32;
        let lo = (k * per_difat).min(tail_entries.len());
        let hi = ((k + 1) * per_difat).min(tail_entries.len());
        let mut values: Vec<u32> = tail_entries[lo..hi].to_vec();
        values.resize(per_difat, tail_fill);
        let next = if k + 1 < num_difat_sectors {
            id + 1
        } else {
            rng.pick(&[EOC, EOC, EOC, EOC, EOC, EOC, FREE, FREE, first_difat_id, 0x7FFF_0000])
        };
        values.push(next);
        raw.sectors.push(raw.u32_sector(&values, FREE));
        while fat0.len() < id as usize {
            fat0.push(FREE);
        }
        fat0.push(if rng.chance(85) { DIFSECT } else { FREE });
    }
    if num_difat_sectors > 0 {
        raw.first_difat = first_difat_id;
        raw.num_difat = num_difat_sectors as u32;
    }
    // Sectors that nothing refers to; sometimes so many (version 3) that
    // the end of the file falls into the range of the second FAT sector.
    let junk = if !v4 && rng.chance(12) {
        (per_fat - raw.sectors.len()) + rng.below(12)
    } else {
        rng.below(3)
    };
    for _ in 0..junk {
        raw.sectors.push(rng.bytes(raw.sector_len()));
    }
    // Finish FAT sector 0: what lies beyond the sectors of the file?
    let beyond = rng.pick(&[FREE, FREE, FREE, 0, FATSECT, DIFSECT, EOC, 3]);
    let within = rng.pick(&[FREE, FREE, FREE, FREE, EOC, 0]);
    while fat0.len() < raw.sectors.len() {
        fat0.push(within);
    }
    fat0.resize(per_fat, beyond);
    if rng.chance(10) {
        let at = rng.below(per_fat);
        fat0[at] = rng.pick(&fills);
    }
    raw.sectors[0] = raw.u32_sector(&fat0, beyond);

    raw.header_difat = difat.iter().copied().take(109).collect();
    let mut num_fat = difat.len() + tail_entries.len();
    if rng.chance(15) {
        num_fat = rng.below(300);
    }
    raw.num_fat_sectors = num_fat as u32;
    if rng.chance(10) {
        raw.num_difat = rng.below(5) as u32;
    }
    if rng.chance(5) {
        raw.first_dir = rng.pick(&[EOC, FREE, 0, 2, 500]);
    }
    if rng.chance(5) {
        raw.first_minifat = rng.pick(&[FREE, 0, 2, 500]);
    }
    if rng.chance(8) {
        raw.cut = 1 + rng.below(raw.sector_len() - 1);
    }
    // What is special about this file: a FAT sector listed more than once,
    // DIFAT sectors, the end of the file inside the second FAT sector.
    let mut listed_ids: Vec<u32> =
        difat.iter().chain(tail_entries.iter()).copied().collect();
    let listed_len = listed_ids.len();
    listed_ids.sort();
    listed_ids.dedup();
    let traits = [
        listed_ids.len() < listed_len,
        num_difat_sectors > 0,
        raw.sectors.len() > per_fat,
    ];
    (raw.build(), traits)
}

/// A file whose DIFAT lists one all-padding FAT sector `repeats` times.  It
/// is well-formed enough for permissive and strict open to ACCEPT it (the
/// padding is FREE_SECTOR), which is why the repetitions cannot simply be
/// refused.
fn repeated_fat_sector_file(v4: bool, difat_sectors: usize) -> Vec<u8> {
    let mut raw = Raw {
        v4,
        num_dir_sectors: if v4 { 1 } else { 0 },
        num_fat_sectors: 0,
        first_dir: 1,
        first_minifat: EOC,
        num_minifat: 0,
        first_difat: 3,
        num_difat: difat_sectors as u32,
        header_difat: Vec::new(),
        sectors: Vec::new(),
        cut: 0,
    };
    let per_fat = raw.sector_len() / 4;
    let per_difat = per_fat - 1;
    let total = 3 + difat_sectors;
    assert!(total <= per_fat);
    // Sector 0: FAT; 1: directory; 2: a FAT sector full of FREE_SECTOR;
    // 3..: DIFAT sectors.
    let mut fat0 = vec![FATSECT, EOC, FATSECT];
    fat0.resize(total, DIFSECT);
    raw.sectors.push(raw.u32_sector(&fat0, FREE));
    let root = Raw::dir_entry("Root Entry", 5, FREE, EOC, 0);
    raw.sectors.push(raw.dir_sector(&[root]));
    raw.sectors.push(raw.u32_sector(&[], FREE));
    raw.header_difat = vec![0];
    raw.header_difat.resize(109, 2);
    for k in 0..difat_sectors {
        let mut values = vec![2u32; per_difat];
        values.push(if k + 1 < difat_sectors { 4 + k as u32 } else { EOC });
        raw.sectors.push(raw.u32_sector(&values, FREE));
    }
    raw.num_fat_sectors = (109 + difat_sectors * per_difat) as u32;
    raw.build()
}

//===========================================================================//
// Tests: verdicts of open over a corpus, compared with recorded fingerprints.

/// Fingerprints recorded with the library as it was before the change
/// (commit 2dcd746).  They cover, for every file of the corpus: whether
/// permissive / strict open accepts it, the complete content when accepted,
/// and the outcome and resulting image of a fixed series of mutations.
const HOSTILE_FINGERPRINT_V3: u64 = 0xae26_9459_9c73_1dcc;
const HOSTILE_FINGERPRINT_V4: u64 = 0x0827_7a15_d0db_3606;
const MUTANT_FINGERPRINT: u64 = 0xed9b_2ade_de1f_507c;

/// The factor for the memory bound over the corpus of hostile files.  Before
/// the change some of those files needed several hundred times their size, so
/// the bound is only asserted on request (set FC_ASSERT_MEMORY).
fn corpus_mem_factor() -> usize {
    if std::env::var_os("FC_ASSERT_MEMORY").is_some() {
        40
    } else {
        0
    }
}

fn fold_verdicts(
    h: &mut Fnv,
    counts: &mut [usize; 3],
    bytes: &[u8],
    rng: &mut Rng,
) {
    let (permissive, strict) = both_verdicts(bytes, corpus_mem_factor());
    counts[0] += 1;
    match permissive {
        Some(ref d) => {
            counts[1] += 1;
            h.add(&dump_digest(d).to_le_bytes());
            // Read-only use must leave no trace; then mutate.
            h.add(&mutate_and_digest(bytes, rng).to_le_bytes());
        }
        None => h.add(b"refused"),
    }
    match strict {
        Some(ref d) => {
            counts[2] += 1;
            h.add(&dump_digest(d).to_le_bytes());
        }
        None => h.add(b"refused"),
    }
}

fn hostile_fingerprint(v4: bool, cases: usize) -> u64 {
    let mut rng = Rng(if v4 { 0x4444 } else { 0x3333 });
    let mut h = Fnv::new();
    let mut counts = [0usize; 3];
    // Accepted files (permissive, strict) by trait, see hostile_file().
    let mut accepted_with = [[0usize; 2]; 3];
    for _ in 0..cases {
        let (bytes, traits) = hostile_file(&mut rng, v4);
        let before = counts;
        fold_verdicts(&mut h, &mut counts, &bytes, &mut rng);
        for (i, &has_trait) in traits.iter().enumerate() {
            if has_trait {
                accepted_with[i][0] += counts[1] - before[1];
                accepted_with[i][1] += counts[2] - before[2];
            }
        }
    }
    println!(
        "hostile v{}: {} files, {} accepted (permissive), {} accepted \
         (strict), fingerprint 0x{:016x}; accepted with repeated FAT \
         sectors {:?}, with DIFAT sectors {:?}, with the end of the file in \
         the second FAT sector {:?}",
        if v4 { 4 } else { 3 },
        counts[0],
        counts[1],
        counts[2],
        h.0,
        accepted_with[0],
        accepted_with[1],
        accepted_with[2],
    );
    assert!(accepted_with[0][0] > cases / 50 && accepted_with[0][1] > 0);
    assert!(accepted_with[1][0] > cases / 50 && accepted_with[1][1] > 0);
    assert!(v4 || (accepted_with[2][0] > 20 && accepted_with[2][1] > 0));
    // The corpus is only worth something if both verdicts occur often.
    assert!(counts[1] * 10 > counts[0], "too few accepted files");
    assert!(counts[2] * 50 > counts[0], "too few strictly accepted files");
    assert!(counts[1] * 10 < counts[0] * 9, "too few refused files");
    h.0
}

#[test]
fn hostile_files_get_the_recorded_verdicts_v3() {
    assert_eq!(
        hostile_fingerprint(false, 4000),
        HOSTILE_FINGERPRINT_V3,
        "verdicts differ from those of the library before the change"
    );
}

#[test]
fn hostile_files_get_the_recorded_verdicts_v4() {
    assert_eq!(
        hostile_fingerprint(true, 900),
        HOSTILE_FINGERPRINT_V4,
        "verdicts differ from those of the library before the change"
    );
}

/// Well-formed files made by the library, damaged at random: single bytes,
/// and whole 32-bit words of the header, the FAT and the directory replaced
/// by values with a meaning.
#[test]
fn damaged_files_get_the_recorded_verdicts() {
    let mut rng = Rng(0xD00D);
    let mut h = Fnv::new();
    let mut counts = [0usize; 3];
    let words = [0, 1, 2, 3, 5, 100, FREE, EOC, FATSECT, DIFSECT, 0xFFFF_FFFA];
    for &version in &[Version::V3, Version::V4] {
        for which in 0..3 {
            let base = base_file(version, which);
            let sector_len = version.sector_len();
            // The undamaged file is accepted both ways.
            let (p, s) = both_verdicts(&base, 40);
            assert!(p.is_some() && s.is_some());
            let rounds = if which == 2 { 150 } else { 400 };
            for _ in 0..rounds {
                let mut bytes = base.clone();
                for _ in 0..(1 + rng.below(3)) {
                    match rng.below(4) {
                        0 => {
                            let at = rng.below(bytes.len());
                            bytes[at] = rng.next() as u8;
                        }
                        1 => {
                            // A field of the header.
                            let at = 40 + 4 * rng.below(12 + 4);
                            put32(&mut bytes, at, rng.pick(&words));
                        }
                        2 => {
                            // A word in one of the first sectors (the FAT
                            // and the directory live there).
                            let limit = bytes.len().min(4 * sector_len);
                            let at = sector_len
                                + 4 * rng.below((limit - sector_len) / 4);
                            put32(&mut bytes, at, rng.pick(&words));
                        }
                        _ => {
                            // Cut the file, or add to it.
                            if rng.chance(50) {
                                let cut = rng.below(2 * sector_len);
                                let n = bytes.len().saturating_sub(cut);
                                bytes.truncate(n);
                            } else {
                                let add = rng.below(2 * sector_len);
                                let fill = rng.pick(&[0u8, 0xFF, 0x5A]);
                                let n = bytes.len() + add;
                                bytes.resize(n, fill);
                            }
                        }
                    }
                }
                fold_verdicts(&mut h, &mut counts, &bytes, &mut rng);
            }
        }
    }
    println!(
        "damaged: {} files, {} accepted (permissive), {} accepted (strict), \
         fingerprint 0x{:016x}",
        counts[0], counts[1], counts[2], h.0
    );
    assert!(counts[1] * 10 > counts[0]);
    assert!(counts[1] < counts[0]);
    assert_eq!(
        h.0, MUTANT_FINGERPRINT,
        "verdicts differ from those of the library before the change"
    );
}

/// Arbitrary bytes behind a valid-looking header (C05).
#[test]
fn random_bytes_never_panic() {
    let mut rng = Rng(0xBEEF);
    for round in 0..600 {
        let v4 = round % 2 == 1;
        let sector_len = if v4 { 4096 } else { 512 };
        let len = sector_len + rng.below(6 * sector_len);
        let mut bytes = rng.bytes(len);
        let (head, _) = hostile_file(&mut rng, v4);
        let keep = if rng.chance(50) { 76 } else { 512 };
        bytes[..keep].copy_from_slice(&head[..keep]);
        if rng.chance(50) {
            // Small numbers are more dangerous than random ones.
            for at in (keep..bytes.len()).step_by(4) {
                if rng.chance(60) && at + 4 <= bytes.len() {
                    let v = rng.pick(&[0, 1, 2, 3, 4, FREE, EOC, FATSECT]);
                    put32(&mut bytes, at, v);
                }
            }
        }
        let _ = both_verdicts(&bytes, corpus_mem_factor());
    }
}

//===========================================================================//
// The point of the change: memory needed by open.

/// The DIFAT of these files lists one FAT sector thousands of times.  Both
/// modes accept the files (the sector holds nothing but FREE_SECTOR), and the
/// result is an ordinary empty compound file.
#[test]
fn repeated_fat_sector_is_accepted() {
    for &v4 in &[false, true] {
        let bytes = repeated_fat_sector_file(v4, if v4 { 2 } else { 20 });
        let (p, s) = both_verdicts(&bytes, 0);
        let p = p.expect("permissive open refuses");
        let s = s.expect("strict open refuses");
        assert_eq!(p, s);
        assert_eq!(p.len(), 1);
        assert!(p[0].0.starts_with("root"));
        // It can be used like any other file (C11), and what comes out can
        // be opened again with the same content (C02).
        let mut comp = CompoundFile::open(Cursor::new(bytes)).unwrap();
        let data = pattern(10_000, 3);
        let mut s = comp.create_stream("/x").unwrap();
        s.write_all(&data).unwrap();
        s.flush().unwrap();
        drop(s);
        let live = dump(&mut comp);
        let image = comp.into_inner().into_inner();
        let mut again = CompoundFile::open(Cursor::new(image)).unwrap();
        assert_eq!(dump(&mut again), live);
        assert_eq!(live[1].1.as_ref().unwrap(), &data);
    }
}

/// Memory proportional to the input (C05), with a small factor.  This is the
/// one test that the library did NOT pass before the change: there the FAT
/// sector was stored once per mention, about 127 (version 3) or 1023
/// (version 4) times the size of the file.  Hence `#[ignore]`; run it with
/// `--ignored`.
#[test]
#[ignore]
fn repeated_fat_sector_needs_little_memory() {
    for &(v4, difat_sectors) in &[(false, 120), (true, 60)] {
        let bytes = repeated_fat_sector_file(v4, difat_sectors);
        for &strict in &[false, true] {
            let started = std::time::Instant::now();
            let (result, peak) = peak_of(|| {
                if strict {
                    CompoundFile::open_strict(Cursor::new(&bytes[..]))
                } else {
                    CompoundFile::open(Cursor::new(&bytes[..]))
                }
            });
            println!(
                "v{} strict={}: file {} bytes, peak heap {} bytes ({:.1}x), \
                 {:?}",
                if v4 { 4 } else { 3 },
                strict,
                bytes.len(),
                peak,
                peak as f64 / bytes.len() as f64,
                started.elapsed()
            );
            assert!(result.is_ok());
            assert!(peak <= 8 * bytes.len() + 64 * 1024, "peak {}", peak);
        }
    }
}

//===========================================================================//
// Faults of the underlying reader while opening (C12), short reads (C18).

struct Faulty {
    inner: Cursor<Vec<u8>>,
    ops: usize,
    fail_at: Option<usize>,
    max_chunk: usize,
}

impl Faulty {
    fn tick(&mut self) -> io::Result<()> {
        let now = self.ops;
        self.ops += 1;
        if self.fail_at == Some(now) {
            return Err(io::Error::new(io::ErrorKind::Other, "injected"));
        }
        Ok(())
    }
}

impl Read for Faulty {
    fn read(&mut self, buf: &mut [u8]) -> io::Result<usize> {
        self.tick()?;
        let n = buf.len().min(self.max_chunk);
        self.inner.read(&mut buf[..n])
    }
}

impl Seek for Faulty {
    fn seek(&mut self, pos: SeekFrom) -> io::Result<u64> {
        self.tick()?;
        self.inner.seek(pos)
    }
}

fn check_faults(bytes: &[u8], strict: bool, max_positions: usize) {
    let open = |reader: Faulty| {
        if strict {
            CompoundFile::open_strict(reader)
        } else {
            CompoundFile::open(reader)
        }
    };
    let clean = Faulty {
        inner: Cursor::new(bytes.to_vec()),
        ops: 0,
        fail_at: None,
        max_chunk: usize::MAX,
    };
    let mut comp = open(clean).expect("file must be acceptable");
    let truth = dump(&mut comp);
    let total_ops = comp.into_inner().ops;
    assert!(truth.iter().all(|(_, c)| c.is_ok()));

    // Short reads change nothing.
    for &chunk in &[1usize, 3, 7] {
        let reader = Faulty {
            inner: Cursor::new(bytes.to_vec()),
            ops: 0,
            fail_at: None,
            max_chunk: chunk,
        };
        let mut comp = open(reader).expect("short reads must not matter");
        assert_eq!(dump(&mut comp), truth);
    }

    let step = (total_ops / max_positions).max(1);
    let mut failed_opens = 0;
    let mut position = 0;
    while position < total_ops {
        let reader = Faulty {
            inner: Cursor::new(bytes.to_vec()),
            ops: 0,
            fail_at: Some(position),
            max_chunk: usize::MAX,
        };
        match open(reader) {
            Err(_) => failed_opens += 1,
            Ok(mut comp) => {
                // The fault may still lie ahead: every answer is either an
                // error or the truth, and afterwards everything is the truth.
                let first = dump(&mut comp);
                assert_eq!(first.len(), truth.len());
                for (got, want) in first.iter().zip(truth.iter()) {
                    assert_eq!(got.0, want.0);
                    if let Ok(ref data) = got.1 {
                        assert_eq!(data, want.1.as_ref().unwrap());
                    }
                }
                assert_eq!(dump(&mut comp), truth);
            }
        }
        position += step;
    }
    assert!(failed_opens > 0);
}

#[test]
fn read_faults_during_open_never_give_wrong_data() {
    for &version in &[Version::V3, Version::V4] {
        let bytes = base_file(version, 1);
        check_faults(&bytes, false, 400);
        check_faults(&bytes, true, 400);
    }
    check_faults(&base_file(Version::V3, 2), false, 150);
    // Files in which FAT sectors are listed more than once.
    check_faults(&repeated_fat_sector_file(false, 3), false, 400);
    check_faults(&repeated_fat_sector_file(false, 3), true, 400);
    check_faults(&repeated_fat_sector_file(true, 1), false, 150);
}

//===========================================================================//
// Random histories against a model, with reopening (C01, C02, C16, C08).

#[derive(Default)]
struct Model {
    storages: BTreeMap<String, ()>,
    streams: BTreeMap<String, Vec<u8>>,
}

fn cfb_order(a: &str, b: &str) -> std::cmp::Ordering {
    // Names in this test are ASCII.
    a.len()
        .cmp(&b.len())
        .then_with(|| a.to_ascii_uppercase().cmp(&b.to_ascii_uppercase()))
}

impl Model {
    fn parent(path: &str) -> &str {
        match path.rfind('/') {
            Some(0) | None => "/",
            Some(i) => &path[..i],
        }
    }
    fn name(path: &str) -> &str {
        &path[path.rfind('/').unwrap() + 1..]
    }
    fn is_storage(&self, path: &str) -> bool {
        path == "/" || self.storages.contains_key(path)
    }
    fn find(&self, path: &str) -> Option<String> {
        // Case-insensitive lookup of the whole path.
        self.storages
            .keys()
            .chain(self.streams.keys())
            .find(|k| k.eq_ignore_ascii_case(path))
            .cloned()
    }
    fn children(&self, dir: &str) -> Vec<String> {
        let mut names: Vec<String> = self
            .storages
            .keys()
            .chain(self.streams.keys())
            .filter(|k| Model::parent(k) == dir)
            .cloned()
            .collect();
        names.sort_by(|a, b| cfb_order(Model::name(a), Model::name(b)));
        names
    }
    fn walk(&self, dir: &str, out: &mut Vec<(String, Option<Vec<u8>>)>) {
        for child in self.children(dir) {
            if let Some(data) = self.streams.get(&child) {
                out.push((child.clone(), Some(data.clone())));
            } else {
                out.push((child.clone(), None));
                self.walk(&child, out);
            }
        }
    }
}

fn observe<F: Read + Seek>(
    comp: &mut CompoundFile<F>,
) -> Vec<(String, Option<Vec<u8>>)> {
    let entries: Vec<cfb::Entry> = comp.walk().collect();
    let mut out = Vec::new();
    for e in entries.iter().skip(1) {
        let path = e.path().to_str().unwrap().to_string();
        if e.is_stream() {
            let mut data = Vec::new();
            comp.open_stream(&path).unwrap().read_to_end(&mut data).unwrap();
            assert_eq!(e.len(), data.len() as u64);
            out.push((path, Some(data)));
        } else {
            out.push((path, None));
        }
    }
    out
}

fn history(version: Version, seed: u64, steps: usize) {
    let mut rng = Rng(seed);
    let mut model = Model::default();
    let mut comp =
        CompoundFile::create_with_version(version, Cursor::new(Vec::new()))
            .unwrap();
    let names = ["a", "B", "cc", "Dd", "e1", "longer_name", "x"];
    let sizes = [0usize, 1, 63, 64, 65, 500, 4095, 4096, 4097, 9000, 20_000];
    for step in 0..steps {
        // A random path of depth 1..3 below existing storages, mostly.
        let mut dir = "/".to_string();
        for _ in 0..rng.below(3) {
            let subdirs: Vec<String> = model
                .children(&dir)
                .into_iter()
                .filter(|c| model.is_storage(c))
                .collect();
            if subdirs.is_empty() {
                break;
            }
            dir = rng.pick(&subdirs.iter().collect::<Vec<_>>()).clone();
        }
        let mut name = rng.pick(&names).to_string();
        if rng.chance(30) {
            name = name.to_ascii_uppercase();
        }
        let path = if dir == "/" {
            format!("/{}", name)
        } else {
            format!("{}/{}", dir, name)
        };
        let existing = model.find(&path);
        match rng.below(6) {
            0 => {
                let result = comp.create_storage(&path);
                if existing.is_some() {
                    let kind = result.unwrap_err().kind();
                    assert_eq!(kind, io::ErrorKind::AlreadyExists);
                } else {
                    result.unwrap();
                    model.storages.insert(path.clone(), ());
                }
            }
            1 | 2 => {
                let data_len = rng.pick(&sizes);
                let data = rng.bytes(data_len);
                let is_dir =
                    existing.as_ref().map_or(false, |p| model.is_storage(p));
                let result = comp.create_stream(&path);
                if is_dir {
                    assert!(result.is_err());
                } else {
                    let mut s = result.unwrap();
                    s.write_all(&data).unwrap();
                    s.flush().unwrap();
                    // create_stream on an existing stream replaces the
                    // content and keeps the stored spelling of the name.
                    let key = existing.unwrap_or(path.clone());
                    model.streams.insert(key, data);
                }
            }
            3 => {
                let result = comp.remove_stream(&path);
                match existing {
                    Some(ref p) if model.streams.contains_key(p) => {
                        result.unwrap();
                        model.streams.remove(p);
                    }
                    Some(_) => assert_eq!(
                        result.unwrap_err().kind(),
                        io::ErrorKind::InvalidInput
                    ),
                    None => assert_eq!(
                        result.unwrap_err().kind(),
                        io::ErrorKind::NotFound
                    ),
                }
            }
            4 => {
                let result = comp.remove_storage(&path);
                match existing {
                    Some(ref p) if model.storages.contains_key(p) => {
                        if model.children(p).is_empty() {
                            result.unwrap();
                            model.storages.remove(p);
                        } else {
                            assert!(result.is_err());
                        }
                    }
                    Some(_) => assert!(result.is_err()),
                    None => assert_eq!(
                        result.unwrap_err().kind(),
                        io::ErrorKind::NotFound
                    ),
                }
            }
            _ => {
                if let Some(ref p) = existing {
                    if let Some(data) = model.streams.get_mut(p) {
                        let new_len = rng.pick(&sizes);
                        let mut s = comp.open_stream(&path).unwrap();
                        s.set_len(new_len as u64).unwrap();
                        s.flush().unwrap();
                        data.resize(new_len, 0);
                    }
                }
            }
        }
        let mut expected = Vec::new();
        model.walk("/", &mut expected);
        assert_eq!(observe(&mut comp), expected, "step {}", step);
        if step % 4 == 3 {
            // The bytes as they are, without flush, reopen to the same state
            // in both modes; go on with the reopened file half of the time.
            let image = comp.into_inner().into_inner();
            assert_eq!(image.len() % version.sector_len(), 0);
            let mut strict =
                CompoundFile::open_strict(Cursor::new(image.clone()))
                    .expect("strict reopen");
            assert_eq!(observe(&mut strict), expected);
            let mut permissive =
                CompoundFile::open(Cursor::new(image.clone())).unwrap();
            assert_eq!(observe(&mut permissive), expected);
            assert_eq!(dump(&mut strict), dump(&mut permissive));
            comp = if rng.chance(50) { strict } else { permissive };
        }
    }
}

#[test]
fn random_histories_match_the_model_and_reopen() {
    for seed in 1..=6 {
        history(Version::V3, seed, 120);
        history(Version::V4, 100 + seed, 120);
    }
}

/// A file large enough to need DIFAT sectors (version 3: more than 109 FAT
/// sectors), written by the library and read back in both modes; memory for
/// open stays far below the size of the file.
#[test]
fn file_with_difat_sectors_round_trips() {
    let mut comp =
        CompoundFile::create_with_version(Version::V3, Cursor::new(Vec::new()))
            .unwrap();
    let chunk = pattern(1 << 20, 9);
    let mut s = comp.create_stream("/big").unwrap();
    for _ in 0..8 {
        s.write_all(&chunk).unwrap();
    }
    s.flush().unwrap();
    drop(s);
    comp.create_stream("/small").unwrap().write_all(b"hello").unwrap();
    let image = comp.into_inner().into_inner();
    assert!(get32(&image, 72) >= 1, "expected at least one DIFAT sector");
    for &strict in &[false, true] {
        let (result, peak) = peak_of(|| {
            if strict {
                CompoundFile::open_strict(Cursor::new(&image[..]))
            } else {
                CompoundFile::open(Cursor::new(&image[..]))
            }
        });
        let mut comp = result.unwrap();
        assert!(peak < image.len() / 4, "peak {} for {}", peak, image.len());
        let mut s = comp.open_stream("/big").unwrap();
        assert_eq!(s.len(), 8 << 20);
        let mut buf = vec![0u8; 1 << 20];
        for _ in 0..8 {
            s.read_exact(&mut buf).unwrap();
            assert!(buf == chunk);
        }
        drop(s);
        let mut small = Vec::new();
        comp.open_stream("/small").unwrap().read_to_end(&mut small).unwrap();
        assert_eq!(small, b"hello");
    }
}
