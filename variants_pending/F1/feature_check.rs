//! Behavioural checks for stream write-back (dirty range tracking).
//!
//! Everything here goes through the public API only: randomized histories on
//! stream handles are compared with an in-memory model, the byte image is
//! reopened (strict and permissive) and checked by a small independent
//! structure checker, and a fault-injecting backend exercises failed
//! write-backs followed by retries.

use cfb::{CompoundFile, OpenOptions, Stream, Version};
use std::cell::{Cell, RefCell};
use std::io::{self, BufRead, Cursor, Read, Seek, SeekFrom, Write};
use std::rc::Rc;
use std::time::{Duration, UNIX_EPOCH};

//===========================================================================//
// A small deterministic PRNG.

struct Rng(u64);

impl Rng {
    fn new(seed: u64) -> Rng {
        Rng(seed.wrapping_mul(0x9E37_79B9_7F4A_7C15) ^ 0xD1B5_4A32_D192_ED03)
    }
    fn next(&mut self) -> u64 {
        let mut x = self.0;
        x ^= x >> 12;
        x ^= x << 25;
        x ^= x >> 27;
        self.0 = x;
        x.wrapping_mul(0x2545_F491_4F6C_DD1D)
    }
    fn below(&mut self, n: u64) -> u64 {
        if n == 0 {
            0
        } else {
            (self.next() >> 11) % n
        }
    }
    fn range(&mut self, lo: u64, hi: u64) -> u64 {
        lo + self.below(hi - lo + 1)
    }
    fn bytes(&mut self, n: usize) -> Vec<u8> {
        (0..n).map(|_| (self.next() >> 32) as u8 | 1).collect()
    }
}

fn fnv(data: &[u8]) -> u64 {
    let mut h = 0xcbf2_9ce4_8422_2325u64;
    for &b in data {
        h = (h ^ b as u64).wrapping_mul(0x100_0000_01b3);
    }
    h
}

//===========================================================================//
// A backend whose bytes can be looked at from outside at any time, and which
// can fail, split transfers, or report transient interruptions.

const K_READ: u8 = 1;
const K_WRITE: u8 = 2;
const K_SEEK: u8 = 4;
const K_FLUSH: u8 = 8;

#[derive(Default)]
struct Ctl {
    /// Kinds of calls that count towards (and are hit by) the fault.
    kinds: Cell<u8>,
    /// Number of matching calls that still succeed; None means no fault.
    countdown: Cell<Option<u64>>,
    /// Number of matching calls that fail once the countdown has run out.
    burst: Cell<u64>,
    /// Number of faults actually delivered.
    hits: Cell<u64>,
    /// Largest transfer per call (0 = unlimited).
    chunk: Cell<usize>,
    /// Every n-th read/write call reports `Interrupted` (0 = never).
    interrupt_every: Cell<u64>,
    calls: Cell<u64>,
    bytes_written: Cell<u64>,
}

impl Ctl {
    fn arm(&self, kinds: u8, countdown: u64, burst: u64) {
        self.kinds.set(kinds);
        self.countdown.set(Some(countdown));
        self.burst.set(burst);
    }
    fn disarm(&self) {
        self.countdown.set(None);
        self.burst.set(0);
    }
    fn check(&self, kind: u8) -> io::Result<()> {
        if self.kinds.get() & kind == 0 {
            return Ok(());
        }
        match self.countdown.get() {
            None => Ok(()),
            Some(0) => {
                if self.burst.get() == 0 {
                    self.countdown.set(None);
                    return Ok(());
                }
                self.burst.set(self.burst.get() - 1);
                self.hits.set(self.hits.get() + 1);
                Err(io::Error::other("injected fault"))
            }
            Some(n) => {
                self.countdown.set(Some(n - 1));
                Ok(())
            }
        }
    }
    fn transfer(&self, len: usize) -> io::Result<usize> {
        let calls = self.calls.get() + 1;
        self.calls.set(calls);
        let every = self.interrupt_every.get();
        if every != 0 && calls % every == 0 {
            return Err(io::Error::new(io::ErrorKind::Interrupted, "again"));
        }
        let chunk = self.chunk.get();
        Ok(if chunk != 0 { len.min(chunk) } else { len })
    }
}

#[derive(Clone)]
struct Disk {
    data: Rc<RefCell<Vec<u8>>>,
    pos: u64,
    ctl: Rc<Ctl>,
}

impl Disk {
    fn new(data: Vec<u8>) -> Disk {
        Disk {
            data: Rc::new(RefCell::new(data)),
            pos: 0,
            ctl: Rc::new(Ctl::default()),
        }
    }
    fn image(&self) -> Vec<u8> {
        self.data.borrow().clone()
    }
}

impl Read for Disk {
    fn read(&mut self, buf: &mut [u8]) -> io::Result<usize> {
        self.ctl.check(K_READ)?;
        let data = self.data.borrow();
        let start = (self.pos.min(data.len() as u64)) as usize;
        let n = self.ctl.transfer(buf.len().min(data.len() - start))?;
        buf[..n].copy_from_slice(&data[start..start + n]);
        self.pos += n as u64;
        Ok(n)
    }
}

impl Write for Disk {
    fn write(&mut self, buf: &[u8]) -> io::Result<usize> {
        self.ctl.check(K_WRITE)?;
        let n = self.ctl.transfer(buf.len())?;
        let mut data = self.data.borrow_mut();
        let start = self.pos as usize;
        if data.len() < start + n {
            data.resize(start + n, 0);
        }
        data[start..start + n].copy_from_slice(&buf[..n]);
        self.pos += n as u64;
        self.ctl.bytes_written.set(self.ctl.bytes_written.get() + n as u64);
        Ok(n)
    }
    fn flush(&mut self) -> io::Result<()> {
        self.ctl.check(K_FLUSH)
    }
}

impl Seek for Disk {
    fn seek(&mut self, pos: SeekFrom) -> io::Result<u64> {
        self.ctl.check(K_SEEK)?;
        let len = self.data.borrow().len() as i128;
        let target = match pos {
            SeekFrom::Start(n) => n as i128,
            SeekFrom::End(n) => len + n as i128,
            SeekFrom::Current(n) => self.pos as i128 + n as i128,
        };
        if !(0..=u64::MAX as i128 / 2).contains(&target) {
            return Err(io::Error::new(
                io::ErrorKind::InvalidInput,
                "bad seek",
            ));
        }
        self.pos = target as u64;
        Ok(self.pos)
    }
}

//===========================================================================//
// An independent structure checker for the byte image (shares no code with
// the library).  Names are ASCII in these tests.

const FREE: u32 = 0xFFFF_FFFF;
const EOC: u32 = 0xFFFF_FFFE;
const FATSECT: u32 = 0xFFFF_FFFD;
const DIFSECT: u32 = 0xFFFF_FFFC;
const NOSTREAM: u32 = 0xFFFF_FFFF;

fn u16_at(b: &[u8], o: usize) -> u16 {
    u16::from_le_bytes([b[o], b[o + 1]])
}
fn u32_at(b: &[u8], o: usize) -> u32 {
    u32::from_le_bytes([b[o], b[o + 1], b[o + 2], b[o + 3]])
}
fn u64_at(b: &[u8], o: usize) -> u64 {
    u32_at(b, o) as u64 | (u32_at(b, o + 4) as u64) << 32
}

struct DirEnt {
    name: Vec<u16>,
    kind: u8,
    color: u8,
    left: u32,
    right: u32,
    child: u32,
    start: u32,
    size: u64,
    raw: Vec<u8>,
}

fn name_less(a: &[u16], b: &[u16]) -> bool {
    let up = |s: &[u16]| -> Vec<u16> {
        s.iter()
            .map(|&c| if (97..=122).contains(&c) { c - 32 } else { c })
            .collect()
    };
    (a.len(), up(a)) < (b.len(), up(b))
}

struct Checker<'a> {
    b: &'a [u8],
    ss: usize,
    nsect: usize,
    fat: Vec<u32>,
    owner: Vec<Option<String>>,
}

impl<'a> Checker<'a> {
    fn sector(&self, id: u32) -> &'a [u8] {
        let o = (id as usize + 1) * self.ss;
        &self.b[o..o + self.ss]
    }
    fn claim(&mut self, id: u32, who: &str) -> Result<(), String> {
        if id as usize >= self.nsect {
            return Err(format!("{}: sector {} out of range", who, id));
        }
        if let Some(prev) = &self.owner[id as usize] {
            return Err(format!("sector {} in {} and {}", id, prev, who));
        }
        self.owner[id as usize] = Some(who.to_string());
        Ok(())
    }
    fn chain(&mut self, start: u32, who: &str) -> Result<Vec<u32>, String> {
        let mut ids = Vec::new();
        let mut cur = start;
        while cur != EOC {
            self.claim(cur, who)?;
            ids.push(cur);
            cur = *self
                .fat
                .get(cur as usize)
                .ok_or_else(|| format!("{}: no FAT entry for {}", who, cur))?;
        }
        Ok(ids)
    }
}

fn check_cfb(b: &[u8]) -> Result<(), String> {
    if b.len() < 512
        || b[..8] != [0xD0, 0xCF, 0x11, 0xE0, 0xA1, 0xB1, 0x1A, 0xE1]
    {
        return Err("bad magic".into());
    }
    let version = u16_at(b, 26);
    let shift = u16_at(b, 30);
    if !((version == 3 && shift == 9) || (version == 4 && shift == 12)) {
        return Err(format!("version {} shift {}", version, shift));
    }
    if u16_at(b, 28) != 0xFFFE || u16_at(b, 32) != 6 || u32_at(b, 56) != 4096 {
        return Err("bad header constants".into());
    }
    let ss = 1usize << shift;
    if b.len() % ss != 0 || b.len() < 2 * ss {
        return Err(format!("file length {} not whole sectors", b.len()));
    }
    let nsect = b.len() / ss - 1;
    let num_dir = u32_at(b, 40) as usize;
    let num_fat = u32_at(b, 44) as usize;
    let first_dir = u32_at(b, 48);
    let first_minifat = u32_at(b, 60);
    let num_minifat = u32_at(b, 64) as usize;
    let first_difat = u32_at(b, 68);
    let num_difat = u32_at(b, 72) as usize;
    let mut ck =
        Checker { b, ss, nsect, fat: Vec::new(), owner: vec![None; nsect] };
    // DIFAT.
    let mut difat: Vec<u32> =
        (0..109).map(|i| u32_at(b, 76 + 4 * i)).collect();
    let mut cur = first_difat;
    let mut n = 0;
    while cur != EOC {
        ck.claim(cur, "DIFAT")?;
        n += 1;
        let s = ck.sector(cur);
        difat.extend((0..ss / 4 - 1).map(|i| u32_at(s, 4 * i)));
        cur = u32_at(s, ss - 4);
    }
    if n != num_difat {
        return Err(format!("{} DIFAT sectors, header says {}", n, num_difat));
    }
    // FAT.
    let fat_ids: Vec<u32> =
        difat.iter().copied().filter(|&id| id != FREE).collect();
    if fat_ids.len() != num_fat {
        return Err(format!(
            "{} FAT sectors, header says {}",
            fat_ids.len(),
            num_fat
        ));
    }
    for &id in &fat_ids {
        ck.claim(id, "FAT")?;
        let s = ck.sector(id);
        ck.fat.extend((0..ss / 4).map(|i| u32_at(s, 4 * i)));
    }
    for &id in &fat_ids {
        if ck.fat[id as usize] != FATSECT {
            return Err(format!("FAT sector {} not marked", id));
        }
    }
    for (id, who) in ck.owner.clone().iter().enumerate() {
        if who.as_deref() == Some("DIFAT") && ck.fat[id] != DIFSECT {
            return Err(format!("DIFAT sector {} not marked", id));
        }
    }
    for (id, &e) in ck.fat.iter().enumerate() {
        if id >= nsect && e != FREE {
            return Err(format!(
                "FAT entry {} beyond the file is {:x}",
                id, e
            ));
        }
    }
    // Directory.
    let dir_ids = ck.chain(first_dir, "directory")?;
    if num_dir != if version == 3 { 0 } else { dir_ids.len() } {
        return Err(format!("{} directory sectors in header", num_dir));
    }
    let mut ents = Vec::new();
    for &id in &dir_ids {
        let s = ck.sector(id);
        for e in s.chunks(128) {
            let nlen = u16_at(e, 64) as usize;
            let units = if nlen >= 2 { nlen / 2 - 1 } else { 0 };
            ents.push(DirEnt {
                name: (0..units.min(31)).map(|i| u16_at(e, 2 * i)).collect(),
                kind: e[66],
                color: e[67],
                left: u32_at(e, 68),
                right: u32_at(e, 72),
                child: u32_at(e, 76),
                start: u32_at(e, 116),
                size: if version == 3 {
                    u32_at(e, 120) as u64
                } else {
                    u64_at(e, 120)
                },
                raw: e.to_vec(),
            });
        }
    }
    if ents.is_empty() || ents[0].kind != 5 {
        return Err("no root entry".into());
    }
    // Mini stream and MiniFAT.
    let mini_ids = ck.chain(ents[0].start, "ministream")?;
    // The library deliberately keeps the container's sectors when the mini
    // stream shrinks, so the chain may be longer than the root's size needs.
    if mini_ids.len() < (ents[0].size as usize).div_ceil(ss) {
        return Err(format!(
            "mini stream: {} sectors for {} bytes",
            mini_ids.len(),
            ents[0].size
        ));
    }
    let minifat_ids = ck.chain(first_minifat, "MiniFAT")?;
    if minifat_ids.len() != num_minifat {
        return Err(format!("{} MiniFAT sectors in header", num_minifat));
    }
    let mut minifat = Vec::new();
    for &id in &minifat_ids {
        let s = ck.sector(id);
        minifat.extend((0..ss / 4).map(|i| u32_at(s, 4 * i)));
    }
    let num_mini = ents[0].size as usize / 64;
    let mut mini_owner: Vec<Option<usize>> = vec![None; minifat.len()];
    // Tree walk.
    let mut seen = vec![false; ents.len()];
    seen[0] = true;
    if ents[0].left != NOSTREAM || ents[0].right != NOSTREAM {
        return Err("root has siblings".into());
    }
    // (storage id, node id, exclusive lower bound, exclusive upper bound,
    // parent is red)
    let mut stack = vec![(ents[0].child, None::<usize>, None::<usize>, false)];
    while let Some((id, lo, hi, parent_red)) = stack.pop() {
        if id == NOSTREAM {
            continue;
        }
        let i = id as usize;
        if i >= ents.len() || seen[i] {
            return Err(format!(
                "directory entry {} linked twice or missing",
                id
            ));
        }
        seen[i] = true;
        let e = &ents[i];
        if e.kind != 1 && e.kind != 2 {
            return Err(format!("entry {} has type {}", id, e.kind));
        }
        if let Some(lo) = lo {
            if !name_less(&ents[lo].name, &e.name) {
                return Err(format!("entry {} out of order", id));
            }
        }
        if let Some(hi) = hi {
            if !name_less(&e.name, &ents[hi].name) {
                return Err(format!("entry {} out of order", id));
            }
        }
        let red = e.color == 0;
        if red && parent_red {
            return Err(format!("entry {} is red below a red node", id));
        }
        stack.push((e.left, lo, Some(i), red));
        stack.push((e.right, Some(i), hi, red));
        if e.kind == 1 {
            if e.start != 0 && e.start != EOC || e.size != 0 {
                // The library writes 0 for a storage's start sector.
                return Err(format!("storage {} has start/size", id));
            }
            stack.push((e.child, None, None, false));
        } else {
            if e.child != NOSTREAM {
                return Err(format!("stream {} has a child", id));
            }
            if e.raw[80..96].iter().chain(&e.raw[100..116]).any(|&x| x != 0) {
                return Err(format!("stream {} has CLSID or times", id));
            }
            if e.size >= 4096 {
                let ids = ck.chain(e.start, &format!("stream {}", id))?;
                if ids.len() != (e.size as usize).div_ceil(ss) {
                    return Err(format!(
                        "stream {}: {} sectors for {} bytes",
                        id,
                        ids.len(),
                        e.size
                    ));
                }
            } else if e.size == 0 {
                if e.start != EOC {
                    return Err(format!("empty stream {} has a chain", id));
                }
            } else {
                let mut cur = e.start;
                let mut count = 0;
                while cur != EOC {
                    let c = cur as usize;
                    if c >= num_mini || c >= minifat.len() {
                        return Err(format!(
                            "stream {}: mini sector {}",
                            id, cur
                        ));
                    }
                    if let Some(prev) = mini_owner[c] {
                        return Err(format!(
                            "mini sector {} in streams {} and {}",
                            cur, prev, id
                        ));
                    }
                    mini_owner[c] = Some(i);
                    count += 1;
                    cur = minifat[c];
                }
                if count != (e.size as usize).div_ceil(64) {
                    return Err(format!(
                        "stream {}: {} mini sectors for {} bytes",
                        id, count, e.size
                    ));
                }
            }
        }
    }
    for (i, e) in ents.iter().enumerate() {
        if !seen[i] && (e.kind != 0 || e.raw[..64].iter().any(|&x| x != 0)) {
            return Err(format!("unreachable entry {} is not blank", i));
        }
    }
    for (id, &e) in ck.fat.iter().enumerate().take(nsect) {
        if e != FREE && ck.owner[id].is_none() {
            return Err(format!("sector {} is allocated but unowned", id));
        }
        if e == FREE && ck.owner[id].is_some() {
            return Err(format!("sector {} is owned but free", id));
        }
    }
    for (id, &e) in minifat.iter().enumerate() {
        if e != FREE && mini_owner[id].is_none() {
            return Err(format!("mini sector {} allocated but unowned", id));
        }
    }
    Ok(())
}

//===========================================================================//
// Helpers.

type Comp = CompoundFile<Disk>;

/// Everything observable about a compound file, in walk order.
fn snapshot<F: Read + Seek>(
    comp: &mut CompoundFile<F>,
) -> Vec<(String, bool, u64, u32, String, Vec<u8>)> {
    let entries: Vec<_> = comp.walk().collect();
    let mut out = Vec::new();
    for e in entries {
        let mut content = Vec::new();
        if e.is_stream() {
            comp.open_stream(e.path())
                .unwrap()
                .read_to_end(&mut content)
                .unwrap();
            assert_eq!(content.len() as u64, e.len());
        }
        let meta =
            format!("{} {:?} {:?}", e.clsid(), e.created(), e.modified());
        out.push((
            e.path().to_string_lossy().into_owned(),
            e.is_stream(),
            e.len(),
            e.state_bits(),
            meta,
            content,
        ));
    }
    out
}

/// Reopens the byte image in both modes, runs the independent checker, and
/// returns what the image exposes.
fn reopen_image(
    image: &[u8],
) -> Vec<(String, bool, u64, u32, String, Vec<u8>)> {
    if let Err(msg) = check_cfb(image) {
        panic!("image is not well formed: {}", msg);
    }
    let mut strict = CompoundFile::open_strict(Cursor::new(image.to_vec()))
        .expect("strict reopen");
    let mut permissive = CompoundFile::open(Cursor::new(image.to_vec()))
        .expect("permissive reopen");
    let a = snapshot(&mut strict);
    let b = snapshot(&mut permissive);
    assert_eq!(a, b, "strict and permissive disagree");
    a
}

fn stream_in<'a>(
    snap: &'a [(String, bool, u64, u32, String, Vec<u8>)],
    path: &str,
) -> &'a [u8] {
    &snap.iter().find(|e| e.0 == path).expect("stream exists").5
}

fn pinned_time() -> std::time::SystemTime {
    UNIX_EPOCH + Duration::from_secs(1_500_000_000)
}

/// Creates a compound file on `disk` with some bystanders, and a stream
/// `/s` holding `initial`; then reopens it with the given buffer size.
fn build(
    disk: &Disk,
    version: Version,
    max_buffer: usize,
    initial: &[u8],
) -> Comp {
    let mut comp =
        CompoundFile::create_with_version(version, disk.clone()).unwrap();
    comp.create_stream("/a").unwrap().write_all(&[7u8; 100]).unwrap();
    comp.create_storage("/st").unwrap();
    comp.set_created_time("/st", pinned_time()).unwrap();
    comp.set_modified_time("/st", pinned_time()).unwrap();
    comp.set_state_bits("/st", 0xABCD).unwrap();
    comp.create_stream("/st/inner").unwrap().write_all(&[9u8; 5000]).unwrap();
    comp.create_stream("/s").unwrap().write_all(initial).unwrap();
    comp.create_stream("/z").unwrap().write_all(&[3u8; 70]).unwrap();
    comp.flush().unwrap();
    drop(comp);
    let mut reopened = disk.clone();
    reopened.pos = 0;
    OpenOptions::new().max_buffer_size(max_buffer).open_with(reopened).unwrap()
}

fn check_bystanders(snap: &[(String, bool, u64, u32, String, Vec<u8>)]) {
    assert_eq!(stream_in(snap, "/a"), &[7u8; 100][..]);
    assert_eq!(stream_in(snap, "/st/inner"), &[9u8; 5000][..]);
    assert_eq!(stream_in(snap, "/z"), &[3u8; 70][..]);
    let st = snap.iter().find(|e| e.0 == "/st").unwrap();
    assert_eq!(st.3, 0xABCD);
    assert!(st.4.contains(&format!("{:?}", pinned_time())));
}

//===========================================================================//
// The model of a stream handle: a byte vector with a cursor.

struct Model {
    data: Vec<u8>,
    pos: usize,
}

impl Model {
    fn write(&mut self, buf: &[u8]) {
        let end = self.pos + buf.len();
        if self.data.len() < end {
            self.data.resize(end, 0);
        }
        self.data[self.pos..end].copy_from_slice(buf);
        self.pos = end;
    }
    fn seek(&mut self, pos: SeekFrom) -> Option<u64> {
        let target = match pos {
            SeekFrom::Start(n) => n as i128,
            SeekFrom::End(n) => self.data.len() as i128 + n as i128,
            SeekFrom::Current(n) => self.pos as i128 + n as i128,
        };
        if target < 0 || target > self.data.len() as i128 {
            None
        } else {
            self.pos = target as usize;
            Some(target as u64)
        }
    }
    fn set_len(&mut self, len: usize) {
        self.data.resize(len, 0);
        self.pos = self.pos.min(len);
    }
}

const INTERESTING: [u64; 16] = [
    0, 1, 63, 64, 65, 511, 512, 513, 1023, 1024, 1025, 4095, 4096, 4097, 8192,
    9000,
];

fn pick_len(rng: &mut Rng, cur: u64) -> u64 {
    match rng.below(4) {
        0 => INTERESTING[rng.below(16) as usize],
        1 => (cur + rng.below(200)).saturating_sub(100),
        2 => rng.below(3000),
        _ => rng.below(12_000),
    }
}

fn pick_seek(rng: &mut Rng, m: &Model) -> SeekFrom {
    let len = m.data.len() as i64;
    let pos = m.pos as i64;
    match rng.below(12) {
        // Mostly short hops, which stay inside the window.
        0..=3 => SeekFrom::Current(rng.range(0, 600) as i64 - 300),
        4 | 5 => SeekFrom::Start(
            (pos + rng.range(0, 3000) as i64 - 1500).clamp(0, len) as u64,
        ),
        6 => SeekFrom::Start(rng.below(len as u64 + 1)),
        7 => SeekFrom::End(-(rng.below(len as u64 + 1) as i64)),
        8 => SeekFrom::Start(m.pos as u64),
        9 => SeekFrom::End(0),
        // Out of range and extreme arguments.
        10 => match rng.below(6) {
            0 => SeekFrom::Start(len as u64 + 1 + rng.below(5)),
            1 => SeekFrom::End(1 + rng.below(5) as i64),
            2 => SeekFrom::Current(len - pos + 1),
            3 => SeekFrom::Current(-pos - 1),
            4 => SeekFrom::End(-len - 1),
            _ => SeekFrom::Start(0),
        },
        _ => match rng.below(6) {
            0 => SeekFrom::Start(u64::MAX),
            1 => SeekFrom::End(i64::MIN),
            2 => SeekFrom::End(i64::MAX),
            3 => SeekFrom::Current(i64::MIN),
            4 => SeekFrom::Current(i64::MAX),
            _ => SeekFrom::Start(u64::MAX / 2 + 1),
        },
    }
}

fn pick_write(rng: &mut Rng) -> Vec<u8> {
    let n = match rng.below(10) {
        0..=4 => rng.range(1, 8),
        5 | 6 => rng.range(1, 70),
        7 => rng.range(1, 1500),
        8 => rng.range(1000, 1100),
        _ => rng.range(1, 5000),
    };
    rng.bytes(n as usize)
}

/// Applies one random operation to the handle and to the model and compares
/// what they report.  Returns true if the handle holds no unflushed data
/// afterwards for certain (a flush, or an effective set_len).
fn step(
    rng: &mut Rng,
    stream: &mut Stream<Disk>,
    m: &mut Model,
    allow_set_len: bool,
) -> bool {
    let mut settled = false;
    match rng.below(20) {
        0..=6 => {
            let buf = pick_write(rng);
            if rng.below(4) == 0 {
                let n = stream.write(&buf).unwrap();
                assert!(n > 0 && n <= buf.len());
                m.write(&buf[..n]);
            } else {
                stream.write_all(&buf).unwrap();
                m.write(&buf);
            }
        }
        7..=9 => {
            let want = rng.range(0, 2000) as usize;
            let mut buf = vec![0u8; want];
            let n = stream.read(&mut buf).unwrap();
            let avail = m.data.len() - m.pos;
            assert!(n <= want.min(avail));
            assert!(n > 0 || want == 0 || avail == 0, "read 0 before the end");
            assert_eq!(&buf[..n], &m.data[m.pos..m.pos + n]);
            m.pos += n;
        }
        10 => {
            let got = stream.fill_buf().unwrap().to_vec();
            let avail = m.data.len() - m.pos;
            assert!(got.len() <= avail);
            assert!(
                !got.is_empty() || avail == 0,
                "empty fill before the end"
            );
            assert_eq!(&got[..], &m.data[m.pos..m.pos + got.len()]);
            let amt = rng.below(got.len() as u64 + 1) as usize;
            stream.consume(amt);
            m.pos += amt;
        }
        11..=15 => {
            let arg = pick_seek(rng, m);
            let before = m.pos;
            match (stream.seek(arg), m.seek(arg)) {
                (Ok(a), Some(b)) => assert_eq!(a, b),
                (Err(e), None) => {
                    assert_eq!(e.kind(), io::ErrorKind::InvalidInput);
                    assert_eq!(m.pos, before);
                }
                (a, b) => panic!("seek {:?}: {:?} vs {:?}", arg, a, b),
            }
        }
        16 | 17 if allow_set_len => {
            let new_len = pick_len(rng, m.data.len() as u64);
            settled = new_len as usize != m.data.len();
            stream.set_len(new_len).unwrap();
            m.set_len(new_len as usize);
        }
        18 => {
            stream.flush().unwrap();
            settled = true;
        }
        _ => {}
    }
    assert_eq!(stream.len(), m.data.len() as u64);
    assert_eq!(stream.is_empty(), m.data.is_empty());
    assert_eq!(stream.stream_position().unwrap(), m.pos as u64);
    settled
}

//===========================================================================//
// C06, C02, C03, C08, C16, C18: one handle against the model, for every
// buffer size and both versions; the image is looked at whenever the handle
// holds nothing unflushed, without calling flush on the file.

const BUFFER_SIZES: [usize; 6] = [0, 1024, 1500, 4096, 5000, 1 << 20];

fn run_single_handle(seed: u64, version: Version, max_buffer: usize) -> u64 {
    let mut rng = Rng::new(seed);
    let initial_len = pick_len(&mut rng, 2000) as usize;
    let initial = rng.bytes(initial_len);
    let disk = Disk::new(Vec::new());
    let mut comp = build(&disk, version, max_buffer, &initial);
    let mut stream = comp.open_stream("/s").unwrap();
    let mut m = Model { data: initial, pos: 0 };
    for _ in 0..120 {
        if step(&mut rng, &mut stream, &mut m, true) {
            let snap = reopen_image(&disk.image());
            assert_eq!(stream_in(&snap, "/s"), &m.data[..]);
            check_bystanders(&snap);
            assert_eq!(comp.entry("/s").unwrap().len(), m.data.len() as u64);
        }
    }
    drop(stream);
    // A fresh handle, the live object and the reopened image all agree.
    let live = snapshot(&mut comp);
    assert_eq!(stream_in(&live, "/s"), &m.data[..]);
    let image = disk.image();
    assert_eq!(reopen_image(&image), live);
    fnv(&image)
}

#[test]
fn single_handle_matches_model() {
    let mut digest = 0u64;
    for seed in 0..40 {
        for version in [Version::V3, Version::V4] {
            for &max_buffer in &BUFFER_SIZES {
                let h = run_single_handle(seed, version, max_buffer);
                // The same history twice gives the same bytes.
                if seed % 8 == 0 {
                    assert_eq!(
                        h,
                        run_single_handle(seed, version, max_buffer)
                    );
                }
                digest = digest.rotate_left(5) ^ h;
            }
        }
    }
    println!("single_handle_matches_model image digest {:016x}", digest);
}

//===========================================================================//
// A pattern aimed at the dirty range itself: load a big window, change a few
// bytes in several places inside it, extend it at the end, and look at the
// image after each flush.

#[test]
fn scattered_small_writes_inside_a_window() {
    let mut written = 0u64;
    for version in [Version::V3, Version::V4] {
        for &max_buffer in &BUFFER_SIZES {
            for &len in &[100usize, 1000, 4000, 4095, 4096, 6000, 20_000] {
                let mut rng = Rng::new(len as u64 + max_buffer as u64);
                let initial = rng.bytes(len);
                let disk = Disk::new(Vec::new());
                let mut comp = build(&disk, version, max_buffer, &initial);
                let built = disk.ctl.bytes_written.get();
                let mut stream = comp.open_stream("/s").unwrap();
                let mut m = Model { data: initial, pos: 0 };
                for round in 0..12 {
                    // Load a window (if the position is not at the end).
                    let mut one = [0u8; 1];
                    let n = stream.read(&mut one).unwrap();
                    m.pos += n;
                    for _ in 0..rng.range(1, 4) {
                        let at = rng.below(m.data.len() as u64 + 1);
                        stream.seek(SeekFrom::Start(at)).unwrap();
                        m.seek(SeekFrom::Start(at));
                        let n = rng.range(1, 5) as usize;
                        let buf = rng.bytes(n);
                        stream.write_all(&buf).unwrap();
                        m.write(&buf);
                    }
                    if round % 3 == 2 {
                        stream.seek(SeekFrom::End(0)).unwrap();
                        m.seek(SeekFrom::End(0));
                        let n = rng.range(1, 300) as usize;
                        let buf = rng.bytes(n);
                        stream.write_all(&buf).unwrap();
                        m.write(&buf);
                    }
                    if round % 2 == 1 {
                        stream.flush().unwrap();
                        let snap = reopen_image(&disk.image());
                        assert_eq!(stream_in(&snap, "/s"), &m.data[..]);
                        check_bystanders(&snap);
                        // A flush with nothing to write is fine too.
                        stream.flush().unwrap();
                        assert_eq!(disk.image(), disk.image());
                    }
                }
                drop(stream);
                let snap = reopen_image(&disk.image());
                assert_eq!(stream_in(&snap, "/s"), &m.data[..]);
                written += disk.ctl.bytes_written.get() - built;
            }
        }
    }
    // For information only: how much the backend was asked to write.
    println!(
        "scattered_small_writes: {} bytes written to the backend",
        written
    );
}

/// The case the optimisation is for: one byte changes in a window of a
/// megabyte.  Checks the outcome; the byte count is for information only.
#[test]
fn one_byte_change_in_a_large_window() {
    for version in [Version::V3, Version::V4] {
        let mut rng = Rng::new(42);
        let initial = rng.bytes(1 << 20);
        let disk = Disk::new(Vec::new());
        let mut comp = build(&disk, version, 1 << 20, &initial);
        let mut want = initial;
        let mut stream = comp.open_stream("/s").unwrap();
        let mut all = Vec::new();
        stream.read_to_end(&mut all).unwrap();
        assert_eq!(all, want);
        let built = disk.ctl.bytes_written.get();
        for &at in &[0usize, 500_000, (1 << 20) - 1] {
            stream.seek(SeekFrom::Start(at as u64)).unwrap();
            stream.write_all(&[0]).unwrap();
            want[at] = 0;
            stream.flush().unwrap();
            let snap = reopen_image(&disk.image());
            assert!(stream_in(&snap, "/s") == &want[..]);
        }
        println!(
            "one_byte_change_in_a_large_window: {} bytes written for 3 flushes",
            disk.ctl.bytes_written.get() - built
        );
    }
}

//===========================================================================//
// C07: several handles on different streams, interleaved with changes to
// other objects; every handle changes only its own stream.

#[test]
fn interleaved_handles_stay_apart() {
    for seed in 0..30 {
        let mut rng = Rng::new(1000 + seed);
        let version = if seed % 2 == 0 { Version::V3 } else { Version::V4 };
        let max_buffer = BUFFER_SIZES[(seed % 6) as usize];
        let disk = Disk::new(Vec::new());
        let mut comp = build(&disk, version, max_buffer, &[]);
        let names = ["/s", "/st/t", "/u"];
        let mut handles = Vec::new();
        let mut models = Vec::new();
        for name in &names[1..] {
            comp.create_stream(name).unwrap();
        }
        for name in &names {
            let n = pick_len(&mut rng, 500) as usize;
            let init = rng.bytes(n);
            let mut h = comp.open_stream(name).unwrap();
            h.write_all(&init).unwrap();
            h.seek(SeekFrom::Start(0)).unwrap();
            handles.push(h);
            models.push(Model { data: init, pos: 0 });
        }
        let mut extra: Option<Vec<u8>> = None;
        for _ in 0..150 {
            let i = rng.below(3) as usize;
            step(&mut rng, &mut handles[i], &mut models[i], true);
            match rng.below(12) {
                0 => {
                    // Create, overwrite or remove an unrelated stream.
                    if extra.is_some() && rng.below(2) == 0 {
                        comp.remove_stream("/st/extra").unwrap();
                        extra = None;
                    } else {
                        let n = pick_len(&mut rng, 100) as usize;
                        let data = rng.bytes(n);
                        comp.create_stream("/st/extra")
                            .unwrap()
                            .write_all(&data)
                            .unwrap();
                        extra = Some(data);
                    }
                }
                1 => {
                    for h in handles.iter_mut() {
                        h.flush().unwrap();
                    }
                    let snap = reopen_image(&disk.image());
                    for (name, m) in names.iter().zip(&models) {
                        assert_eq!(stream_in(&snap, name), &m.data[..]);
                    }
                    check_bystanders(&snap);
                    if let Some(data) = &extra {
                        assert_eq!(stream_in(&snap, "/st/extra"), &data[..]);
                    } else {
                        assert!(!snap.iter().any(|e| e.0 == "/st/extra"));
                    }
                }
                _ => {}
            }
        }
        drop(handles);
        let live = snapshot(&mut comp);
        for (name, m) in names.iter().zip(&models) {
            assert_eq!(stream_in(&live, name), &m.data[..]);
        }
        assert_eq!(reopen_image(&disk.image()), live);
    }
}

//===========================================================================//
// C08: growing after a shrink reads as zero, also with modified data in the
// handle's buffer on both sides of the cut.

#[test]
fn growth_reads_as_zero_with_buffered_writes() {
    for version in [Version::V3, Version::V4] {
        for &max_buffer in &BUFFER_SIZES {
            for &(len, cut, grow) in &[
                (1000usize, 10usize, 900usize),
                (4000, 70, 4095),
                (4000, 70, 4096),
                (5000, 4100, 6000),
                (5000, 100, 5000),
                (9000, 4096, 9000),
                (3000, 0, 3000),
            ] {
                let disk = Disk::new(Vec::new());
                let mut comp =
                    build(&disk, version, max_buffer, &vec![0xEE; len]);
                let mut s = comp.open_stream("/s").unwrap();
                let mut m = Model { data: vec![0xEE; len], pos: 0 };
                // Dirty bytes before and after the future cut.
                for at in [cut / 2, (cut + len) / 2, len - 1] {
                    s.seek(SeekFrom::Start(at as u64)).unwrap();
                    m.seek(SeekFrom::Start(at as u64));
                    s.write_all(&[0x55]).unwrap();
                    m.write(&[0x55]);
                }
                s.set_len(cut as u64).unwrap();
                m.set_len(cut);
                s.set_len(grow as u64).unwrap();
                m.set_len(grow);
                assert_eq!(s.stream_position().unwrap(), m.pos as u64);
                s.seek(SeekFrom::Start(0)).unwrap();
                let mut got = Vec::new();
                s.read_to_end(&mut got).unwrap();
                assert_eq!(got, m.data);
                assert!(got[cut..].iter().all(|&x| x == 0));
                let snap = reopen_image(&disk.image());
                assert_eq!(stream_in(&snap, "/s"), &m.data[..]);
            }
        }
    }
}

//===========================================================================//
// Truncation while the handle holds modified data on both sides of the cut,
// including data that extends the stream and has never been written back.

const CUT_CASES: [(usize, usize, usize); 14] = [
    // (length in the file, bytes appended through the handle, new length)
    (0, 10, 0),
    (0, 3000, 5),
    (0, 6000, 4096),
    (100, 50, 120),
    (100, 50, 100),
    (100, 50, 30),
    (100, 5000, 64),
    (100, 5000, 4095),
    (100, 5000, 4097),
    (4000, 200, 4095),
    (4000, 200, 4096),
    (5000, 3000, 5100),
    (5000, 3000, 4999),
    (9000, 2000, 1),
];

fn cut_setup(
    disk: &Disk,
    version: Version,
    max_buffer: usize,
    case: (usize, usize, usize),
) -> (Comp, Stream<Disk>, Model) {
    let (persisted, extra, _) = case;
    let mut rng = Rng::new((persisted * 31 + extra) as u64);
    let initial = rng.bytes(persisted);
    let mut comp = build(disk, version, max_buffer, &initial);
    let mut s = comp.open_stream("/s").unwrap();
    let mut m = Model { data: initial, pos: 0 };
    s.seek(SeekFrom::End(0)).unwrap();
    m.seek(SeekFrom::End(0));
    let tail = rng.bytes(extra);
    s.write_all(&tail).unwrap();
    m.write(&tail);
    // A change a little before the end, usually inside the same window.
    let back = m.data.len().min(700) as i64;
    s.seek(SeekFrom::End(-back)).unwrap();
    m.seek(SeekFrom::End(-back));
    s.write_all(&[0xA5]).unwrap();
    m.write(&[0xA5]);
    (comp, s, m)
}

#[test]
fn truncation_with_unflushed_tail() {
    for version in [Version::V3, Version::V4] {
        for &max_buffer in &BUFFER_SIZES {
            for &case in &CUT_CASES {
                let cut = case.2;
                let disk = Disk::new(Vec::new());
                let (mut comp, mut s, mut m) =
                    cut_setup(&disk, version, max_buffer, case);
                s.set_len(cut as u64).unwrap();
                m.set_len(cut);
                assert_eq!(s.len(), cut as u64);
                assert_eq!(s.stream_position().unwrap(), m.pos as u64);
                let snap = reopen_image(&disk.image());
                assert_eq!(stream_in(&snap, "/s"), &m.data[..]);
                check_bystanders(&snap);
                // What was cut off never comes back.
                s.set_len(cut as u64 + 500).unwrap();
                m.set_len(cut + 500);
                let snap = reopen_image(&disk.image());
                assert_eq!(stream_in(&snap, "/s"), &m.data[..]);
                s.write_all(b"after").unwrap();
                m.write(b"after");
                s.flush().unwrap();
                s.seek(SeekFrom::Start(0)).unwrap();
                let mut got = Vec::new();
                s.read_to_end(&mut got).unwrap();
                assert_eq!(got, m.data);
                drop(s);
                let live = snapshot(&mut comp);
                assert_eq!(stream_in(&live, "/s"), &m.data[..]);
                assert_eq!(reopen_image(&disk.image()), live);
            }
        }
    }
}

/// The same truncations with the backend failing at every possible point.
/// A failed set_len is reported; the handle then still has its old length
/// and its data, and a flush that returns Ok has made all of it durable.
#[test]
fn truncation_under_faults() {
    let mut failed = 0;
    let mut recovered = 0;
    let mut unreadable = 0;
    let mut cut_anyway = 0;
    for version in [Version::V3, Version::V4] {
        for &max_buffer in &[1024usize, 1 << 20] {
            for &case in &CUT_CASES {
                for kinds in [K_WRITE, K_SEEK, K_WRITE | K_SEEK] {
                    // Early, and then ever later in the call (which takes
                    // up to several thousand backend calls).
                    let mut k = 0u64;
                    loop {
                        k += 1 + k / 3;
                        let disk = Disk::new(Vec::new());
                        let (mut comp, mut s, mut m) =
                            cut_setup(&disk, version, max_buffer, case);
                        disk.ctl.arm(kinds, k - 1, 1);
                        let result = s.set_len(case.2 as u64);
                        let hit = disk.ctl.hits.get() > 0;
                        disk.ctl.disarm();
                        match result {
                            Ok(()) => m.set_len(case.2),
                            Err(_) => {
                                assert!(hit);
                                failed += 1;
                            }
                        }
                        assert_eq!(s.len(), m.data.len() as u64);
                        assert_eq!(s.stream_position().unwrap(), m.pos as u64);
                        if s.flush().is_ok() {
                            let mut got = Vec::new();
                            let mut fresh = comp.open_stream("/s").unwrap();
                            match fresh.read_to_end(&mut got) {
                                Ok(_) if result.is_ok() => {
                                    assert_eq!(got, m.data)
                                }
                                // A set_len that failed half way may have
                                // taken effect in the file all the same,
                                // but no other bytes ever show up.
                                Ok(_) => {
                                    let cut = case.2.min(m.data.len());
                                    if got == m.data {
                                        recovered += 1;
                                    } else {
                                        assert_eq!(got, m.data[..cut]);
                                        cut_anyway += 1;
                                    }
                                }
                                Err(_) => {
                                    assert!(result.is_err());
                                    unreadable += 1;
                                }
                            }
                        }
                        if !hit {
                            let snap = reopen_image(&disk.image());
                            assert_eq!(stream_in(&snap, "/s"), &m.data[..]);
                        }
                        // Nothing panics afterwards, whatever it returns.
                        let _ = s.set_len(case.2 as u64);
                        let _ = s.write(b"x");
                        let _ = s.flush();
                        drop(s);
                        let _ = comp.flush();
                        if !hit {
                            // No later countdown reaches the call either.
                            break;
                        }
                    }
                }
            }
        }
    }
    println!(
        "truncation_under_faults: {} failed, then {} intact, {} cut, {} unreadable",
        failed, recovered, cut_anyway, unreadable
    );
    assert!(failed > 500);
}

//===========================================================================//
// C10: refused calls change nothing, also while modified data is buffered.

#[test]
fn refused_calls_leave_bytes_alone() {
    for version in [Version::V3, Version::V4] {
        let disk = Disk::new(Vec::new());
        let mut comp = build(&disk, version, 4096, &[1u8; 3000]);
        let mut s = comp.open_stream("/s").unwrap();
        s.seek(SeekFrom::Start(10)).unwrap();
        s.write_all(b"hello").unwrap();
        let before = disk.image();
        for arg in [
            SeekFrom::Start(3001),
            SeekFrom::End(1),
            SeekFrom::End(-3001),
            SeekFrom::Current(-16),
            SeekFrom::Current(2986),
            SeekFrom::Current(i64::MIN),
            SeekFrom::Start(u64::MAX),
        ] {
            let err = s.seek(arg).unwrap_err();
            assert_eq!(err.kind(), io::ErrorKind::InvalidInput);
            assert_eq!(s.stream_position().unwrap(), 15);
        }
        let err = s.set_len(u64::MAX).unwrap_err();
        assert_eq!(err.kind(), io::ErrorKind::InvalidInput);
        assert_eq!(s.len(), 3000);
        assert_eq!(disk.image(), before, "a refused call wrote something");
        s.flush().unwrap();
        let mut want = vec![1u8; 3000];
        want[10..15].copy_from_slice(b"hello");
        assert_eq!(stream_in(&reopen_image(&disk.image()), "/s"), &want[..]);
    }
}

//===========================================================================//
// C13: write, seek and flush failures of the backend.  A failing call is
// reported; whatever was accepted by `write` is in the file once a flush
// returns Ok, and is read back by a fresh handle.

fn run_faulty_history(seed: u64) -> (u64, u64) {
    let mut rng = Rng::new(seed);
    let version = if rng.below(2) == 0 { Version::V3 } else { Version::V4 };
    let max_buffer = BUFFER_SIZES[rng.below(6) as usize];
    let n = pick_len(&mut rng, 3000) as usize;
    let initial = rng.bytes(n);
    let disk = Disk::new(Vec::new());
    let mut comp = build(&disk, version, max_buffer, &initial);
    let mut stream = comp.open_stream("/s").unwrap();
    let mut m = Model { data: initial, pos: 0 };
    let kinds = [K_WRITE, K_SEEK, K_FLUSH, K_WRITE | K_SEEK | K_FLUSH]
        [rng.below(4) as usize];
    disk.ctl.arm(kinds, rng.below(40), rng.range(1, 3));
    let mut failures = 0u64;
    let mut flush_ok_after_failure = 0u64;
    for _ in 0..60 {
        match rng.below(10) {
            0..=4 => {
                if rng.below(3) == 0 {
                    let at = pick_seek(&mut rng, &m);
                    match stream.seek(at) {
                        Ok(p) => assert_eq!(Some(p), m.seek(at)),
                        Err(e) if e.kind() == io::ErrorKind::InvalidInput => {
                            assert_eq!(m.seek(at), None)
                        }
                        Err(_) => failures += 1,
                    }
                }
                let buf = pick_write(&mut rng);
                match stream.write(&buf) {
                    Ok(n) => {
                        assert!(n > 0 && n <= buf.len());
                        m.write(&buf[..n]);
                    }
                    Err(_) => failures += 1,
                }
            }
            5 | 6 => {
                let mut buf = vec![0u8; rng.range(1, 1500) as usize];
                match stream.read(&mut buf) {
                    Ok(n) => {
                        assert_eq!(&buf[..n], &m.data[m.pos..m.pos + n]);
                        assert!(n > 0 || m.pos == m.data.len());
                        m.pos += n;
                    }
                    Err(_) => failures += 1,
                }
            }
            7 => match stream.flush() {
                Ok(()) => {
                    if failures > 0 {
                        flush_ok_after_failure += 1;
                    }
                    // Durable: a fresh handle reads everything back.
                    let hits = disk.ctl.hits.get();
                    let saved =
                        (disk.ctl.countdown.get(), disk.ctl.burst.get());
                    disk.ctl.disarm();
                    let mut fresh = comp.open_stream("/s").unwrap();
                    let mut got = Vec::new();
                    fresh.read_to_end(&mut got).unwrap();
                    assert_eq!(
                        got, m.data,
                        "seed {}: flush Ok, data lost",
                        seed
                    );
                    disk.ctl.countdown.set(saved.0);
                    disk.ctl.burst.set(saved.1);
                    if hits == 0 {
                        let snap = reopen_image(&disk.image());
                        assert_eq!(stream_in(&snap, "/s"), &m.data[..]);
                    }
                }
                Err(_) => failures += 1,
            },
            8 => {
                // Re-arm, so that a retry can fail as well.
                if disk.ctl.countdown.get().is_none() {
                    disk.ctl.arm(kinds, rng.below(10), rng.range(1, 2));
                }
            }
            _ => {
                let at = pick_seek(&mut rng, &m);
                match stream.seek(at) {
                    Ok(p) => assert_eq!(Some(p), m.seek(at)),
                    Err(e) if e.kind() == io::ErrorKind::InvalidInput => {
                        assert_eq!(m.seek(at), None)
                    }
                    Err(_) => failures += 1,
                }
            }
        }
        // A failed call moves nothing.
        assert_eq!(stream.len(), m.data.len() as u64);
        assert_eq!(stream.stream_position().unwrap(), m.pos as u64);
    }
    // Retry without faults: the flush must succeed now or keep failing, and
    // if it succeeds everything is there.
    disk.ctl.disarm();
    if stream.flush().is_ok() {
        if failures > 0 {
            flush_ok_after_failure += 1;
        }
        drop(stream);
        let mut fresh = comp.open_stream("/s").unwrap();
        let mut got = Vec::new();
        fresh.read_to_end(&mut got).unwrap();
        assert_eq!(got, m.data, "seed {}: final flush Ok, data lost", seed);
        if disk.ctl.hits.get() == 0 {
            let snap = reopen_image(&disk.image());
            assert_eq!(stream_in(&snap, "/s"), &m.data[..]);
            check_bystanders(&snap);
        }
    }
    (failures, flush_ok_after_failure)
}

#[test]
fn failed_write_back_is_reported_and_retried() {
    let mut failures = 0;
    let mut retried = 0;
    for seed in 0..600 {
        let (f, r) = run_faulty_history(5000 + seed);
        failures += f;
        retried += r;
    }
    println!(
        "{} failed calls, {} successful flushes after one",
        failures, retried
    );
    assert!(failures > 100 && retried > 50, "the faults missed their target");
}

/// The plain case, spelled out: a write-back of a small change inside a
/// window fails, the retry succeeds, and the change is in the file.
#[test]
fn retry_after_failed_flush_writes_the_change() {
    for version in [Version::V3, Version::V4] {
        for &len in &[2000usize, 6000] {
            for kind in [K_WRITE, K_SEEK, K_FLUSH] {
                for more in 0..3 {
                    retry_case(version, len, kind, more);
                }
            }
        }
    }
}

fn retry_case(version: Version, len: usize, kind: u8, more: u32) {
    let disk = Disk::new(Vec::new());
    let mut comp = build(&disk, version, 1 << 20, &vec![1u8; len]);
    let mut s = comp.open_stream("/s").unwrap();
    let mut all = Vec::new();
    s.read_to_end(&mut all).unwrap();
    s.seek(SeekFrom::Start(700)).unwrap();
    s.write_all(b"abc").unwrap();
    disk.ctl.arm(kind, 0, 1);
    assert!(s.flush().is_err());
    assert_eq!(disk.ctl.hits.get(), 1);
    let mut want = vec![1u8; len];
    want[700..703].copy_from_slice(b"abc");
    // Retry at once, or after more changes: one elsewhere in the window, or
    // on both sides and past the end.
    if more >= 1 {
        s.seek(SeekFrom::Start(20)).unwrap();
        s.write_all(b"x").unwrap();
        want[20] = b'x';
    }
    if more >= 2 {
        s.seek(SeekFrom::End(0)).unwrap();
        s.write_all(b"tail").unwrap();
        want.extend_from_slice(b"tail");
    }
    s.flush().unwrap();
    let mut got = Vec::new();
    comp.open_stream("/s").unwrap().read_to_end(&mut got).unwrap();
    assert_eq!(got, want);
    let snap = reopen_image(&disk.image());
    assert_eq!(stream_in(&snap, "/s"), &want[..]);
    check_bystanders(&snap);
}

//===========================================================================//
// C12: read and seek failures on a file that is only read.

#[test]
fn read_faults_never_give_wrong_bytes() {
    for seed in 0..150 {
        let mut rng = Rng::new(9000 + seed);
        let version = if seed % 2 == 0 { Version::V3 } else { Version::V4 };
        let n = pick_len(&mut rng, 5000) as usize;
        let content = rng.bytes(n);
        let disk = Disk::new(Vec::new());
        drop(build(&disk, version, 1024, &content));
        let mut backend = disk.clone();
        backend.pos = 0;
        disk.ctl.arm(K_READ | K_SEEK, rng.below(60), rng.range(1, 3));
        let max_buffer = BUFFER_SIZES[(seed % 6) as usize];
        let opened =
            OpenOptions::new().max_buffer_size(max_buffer).open_with(backend);
        let mut comp = match opened {
            Ok(comp) => comp,
            Err(_) => continue,
        };
        let mut stream = match comp.open_stream("/s") {
            Ok(s) => s,
            Err(_) => continue,
        };
        let mut pos = 0usize;
        for _ in 0..40 {
            if rng.below(3) == 0 {
                let at = rng.below(content.len() as u64 + 1);
                if let Ok(p) = stream.seek(SeekFrom::Start(at)) {
                    assert_eq!(p, at);
                }
            } else {
                let mut buf = vec![0u8; rng.range(1, 1500) as usize];
                pos = stream.stream_position().unwrap() as usize;
                if let Ok(n) = stream.read(&mut buf) {
                    assert_eq!(&buf[..n], &content[pos..pos + n]);
                    assert!(n > 0 || pos == content.len());
                }
            }
            if disk.ctl.countdown.get().is_none() && rng.below(4) == 0 {
                disk.ctl.arm(K_READ | K_SEEK, rng.below(6), rng.range(1, 2));
            }
        }
        let _ = pos;
        assert_eq!(stream.len(), content.len() as u64);
    }
}

//===========================================================================//
// C15: a net-zero cycle does not grow the file from the second round on.

#[test]
fn net_zero_cycles_do_not_grow_the_file() {
    for version in [Version::V3, Version::V4] {
        for &max_buffer in &[1024usize, 1 << 20] {
            for &len in &[1000usize, 10_000] {
                let disk = Disk::new(Vec::new());
                let mut comp = build(&disk, version, max_buffer, &[]);
                let mut sizes = Vec::new();
                for _ in 0..5 {
                    let mut s = comp.create_stream("/cycle").unwrap();
                    s.write_all(&vec![5u8; len]).unwrap();
                    for at in [3u64, 900, len as u64 - 2] {
                        s.seek(SeekFrom::Start(at)).unwrap();
                        s.write_all(b"!").unwrap();
                    }
                    s.flush().unwrap();
                    s.seek(SeekFrom::Start(500)).unwrap();
                    s.write_all(b"again").unwrap();
                    drop(s);
                    comp.remove_stream("/cycle").unwrap();
                    sizes.push(disk.image().len());
                    reopen_image(&disk.image());
                }
                assert!(
                    sizes[1..].iter().all(|&s| s == sizes[1]),
                    "{:?}",
                    sizes
                );
            }
        }
    }
}

//===========================================================================//
// C18: the same history gives the same bytes on a plain buffer, on a backend
// that splits and interrupts transfers, and on a real file.

fn fixed_history<F: Read + Write + Seek>(
    comp: &mut CompoundFile<F>,
    seed: u64,
) -> Vec<u8> {
    let mut rng = Rng::new(seed);
    comp.create_storage("/st").unwrap();
    comp.set_created_time("/st", pinned_time()).unwrap();
    comp.set_modified_time("/st", pinned_time()).unwrap();
    let mut s = comp.create_stream("/st/s").unwrap();
    let mut m = Model { data: Vec::new(), pos: 0 };
    for _ in 0..80 {
        match rng.below(8) {
            0..=3 => {
                let buf = pick_write(&mut rng);
                s.write_all(&buf).unwrap();
                m.write(&buf);
            }
            4 | 5 => {
                let at = rng.below(m.data.len() as u64 + 1);
                s.seek(SeekFrom::Start(at)).unwrap();
                m.seek(SeekFrom::Start(at));
            }
            6 => {
                let mut buf = vec![0u8; rng.range(1, 900) as usize];
                let n = s.read(&mut buf).unwrap();
                assert_eq!(&buf[..n], &m.data[m.pos..m.pos + n]);
                m.pos += n;
            }
            _ => {
                if rng.below(3) == 0 {
                    let len = pick_len(&mut rng, m.data.len() as u64);
                    s.set_len(len).unwrap();
                    m.set_len(len as usize);
                } else {
                    s.flush().unwrap();
                }
            }
        }
    }
    s.flush().unwrap();
    m.data
}

#[test]
fn same_bytes_for_every_backend_and_chunking() {
    let mut digest = 0u64;
    for seed in 0..12 {
        for version in [Version::V3, Version::V4] {
            let plain = Disk::new(Vec::new());
            let mut comp =
                CompoundFile::create_with_version(version, plain.clone())
                    .unwrap();
            let want = fixed_history(&mut comp, seed);
            drop(comp);

            let chunked = Disk::new(Vec::new());
            chunked.ctl.chunk.set(1 + (seed as usize * 37) % 200);
            chunked.ctl.interrupt_every.set(3 + seed % 5);
            let mut comp =
                CompoundFile::create_with_version(version, chunked.clone())
                    .unwrap();
            assert_eq!(fixed_history(&mut comp, seed), want);
            drop(comp);
            assert!(
                plain.image() == chunked.image(),
                "chunking changed bytes"
            );

            let path = std::env::temp_dir().join(format!(
                "cfb_feature_check_{}_{}_{}.cfb",
                std::process::id(),
                seed,
                version.number()
            ));
            let file = std::fs::OpenOptions::new()
                .read(true)
                .write(true)
                .create(true)
                .truncate(true)
                .open(&path)
                .unwrap();
            let mut comp =
                CompoundFile::create_with_version(version, file).unwrap();
            assert_eq!(fixed_history(&mut comp, seed), want);
            drop(comp);
            let on_disk = std::fs::read(&path).unwrap();
            std::fs::remove_file(&path).unwrap();
            assert!(plain.image() == on_disk, "real file differs");

            let snap = reopen_image(&on_disk);
            assert_eq!(stream_in(&snap, "/st/s"), &want[..]);
            digest = digest.rotate_left(7) ^ fnv(&on_disk);
        }
    }
    println!("same_bytes_for_every_backend image digest {:016x}", digest);
}

//===========================================================================//
// C14: read-only calls from other threads while the handle is in use.

#[test]
fn concurrent_readers_do_not_deadlock() {
    let mut comp = CompoundFile::create(Cursor::new(Vec::new())).unwrap();
    comp.create_storage("/st").unwrap();
    comp.create_stream("/st/x").unwrap().write_all(&[1u8; 300]).unwrap();
    let mut stream = comp.create_stream("/s").unwrap();
    let done = std::sync::atomic::AtomicBool::new(false);
    let comp_ref = &comp;
    let done_ref = &done;
    std::thread::scope(|scope| {
        for _ in 0..3 {
            scope.spawn(move || {
                let mut last = 0u64;
                while !done_ref.load(std::sync::atomic::Ordering::SeqCst) {
                    let len = comp_ref.entry("/s").unwrap().len();
                    assert!(len >= last, "length went backwards");
                    last = len;
                    assert!(comp_ref.is_stream("/s"));
                    assert!(comp_ref.is_storage("/st"));
                    assert!(comp_ref.exists("/st/x"));
                    assert_eq!(comp_ref.walk().count(), 4);
                    assert_eq!(
                        comp_ref.read_storage("/st").unwrap().count(),
                        1
                    );
                    assert!(comp_ref.root_entry().is_root());
                }
            });
        }
        let mut rng = Rng::new(77);
        let mut m = Model { data: Vec::new(), pos: 0 };
        for i in 0..400 {
            let n = rng.range(1, 300) as usize;
            let buf = rng.bytes(n);
            stream.write_all(&buf).unwrap();
            m.write(&buf);
            let at = rng.below(m.data.len() as u64 + 1);
            stream.seek(SeekFrom::Start(at)).unwrap();
            m.seek(SeekFrom::Start(at));
            if i % 7 == 0 {
                stream.flush().unwrap();
            }
            if i % 5 == 0 {
                stream.seek(SeekFrom::End(0)).unwrap();
                m.seek(SeekFrom::End(0));
            }
        }
        stream.flush().unwrap();
        stream.seek(SeekFrom::Start(0)).unwrap();
        let mut got = Vec::new();
        stream.read_to_end(&mut got).unwrap();
        assert_eq!(got, m.data);
        done.store(true, std::sync::atomic::Ordering::SeqCst);
    });
}

//===========================================================================//
// Not part of the contract, but must not get worse: the stream is replaced
// (emptied) through the file object while a handle still has modified data.

#[test]
fn handle_survives_its_stream_being_emptied() {
    for version in [Version::V3, Version::V4] {
        for &len in &[1000usize, 6000] {
            let disk = Disk::new(Vec::new());
            let mut comp = build(&disk, version, 1 << 20, &vec![4u8; len]);
            let mut s = comp.open_stream("/s").unwrap();
            let mut all = Vec::new();
            s.read_to_end(&mut all).unwrap();
            s.seek(SeekFrom::Start(500)).unwrap();
            s.write_all(b"zz").unwrap();
            drop(comp.create_stream("/s").unwrap());
            assert_eq!(comp.entry("/s").unwrap().len(), 0);
            // Whatever the handle does now, it must not panic, and the file
            // must stay well formed.
            let flushed = s.flush();
            drop(s);
            let snap = reopen_image(&disk.image());
            check_bystanders(&snap);
            if flushed.is_ok() {
                let mut want = vec![4u8; len];
                want[500..502].copy_from_slice(b"zz");
                assert_eq!(stream_in(&snap, "/s"), &want[..]);
            }
        }
    }
}

/// As above, but with the handle's window beyond the new end of the stream,
/// so that its data cannot be written back without leaving a gap.  The
/// unchanged library fails an assertion here in debug builds, and in release
/// builds writes a stream entry whose length its chain does not cover; with
/// dirty range tracking the flush reports an error instead.  Ignored by
/// default because it does not pass on the unchanged source.
#[test]
#[ignore]
fn handle_beyond_the_end_of_its_emptied_stream() {
    for version in [Version::V3, Version::V4] {
        let disk = Disk::new(Vec::new());
        let mut comp = build(&disk, version, 1024, &[4u8; 9000]);
        let mut s = comp.open_stream("/s").unwrap();
        s.seek(SeekFrom::Start(8500)).unwrap();
        let mut buf = [0u8; 10];
        s.read_exact(&mut buf).unwrap();
        drop(comp.create_stream("/s").unwrap());
        s.write_all(b"x").unwrap();
        assert!(s.flush().is_err());
        drop(s);
        assert_eq!(comp.entry("/s").unwrap().len(), 0);
        let snap = reopen_image(&disk.image());
        assert_eq!(stream_in(&snap, "/s"), &[0u8; 0][..]);
        check_bystanders(&snap);
    }
}
