//! Behavioural checks for stream-handle buffer management (large reads that
//! may bypass the handle's buffer, buffer reuse across refills).
//!
//! Only the public API and std are used, so the file passes on a source tree
//! with or without the change: it tests behaviour, not implementation.

use cfb::{CompoundFile, OpenOptions, Stream, Version};
use std::collections::BTreeMap;
use std::io::{self, BufRead, Read, Seek, SeekFrom, Write};
use std::sync::atomic::{AtomicBool, AtomicI64, AtomicUsize, Ordering};
use std::sync::{Arc, Mutex};

//===========================================================================//
// A small deterministic PRNG (xorshift64*).

struct Rng(u64);

impl Rng {
    fn new(seed: u64) -> Rng {
        Rng(seed.wrapping_mul(0x9E37_79B9_7F4A_7C15) | 1)
    }
    fn next(&mut self) -> u64 {
        let mut x = self.0;
        x ^= x >> 12;
        x ^= x << 25;
        x ^= x >> 27;
        self.0 = x;
        x.wrapping_mul(0x2545_F491_4F6C_DD1D)
    }
    fn below(&mut self, n: u64) -> u64 {
        if n == 0 {
            0
        } else {
            self.next() % n
        }
    }
    fn pick<T: Copy>(&mut self, items: &[T]) -> T {
        items[self.below(items.len() as u64) as usize]
    }
    fn bytes(&mut self, n: usize) -> Vec<u8> {
        // Never zero, so that zero-filled regions are told apart from data.
        (0..n).map(|_| (self.next() % 255) as u8 + 1).collect()
    }
}

//===========================================================================//
// A shared, fault-injecting, chunking Read + Write + Seek backend.

#[derive(Default)]
struct Ctl {
    /// Number of eligible operations that still succeed; negative = never fail.
    countdown: AtomicI64,
    fail_reads: AtomicBool,
    fail_writes: AtomicBool,
    fail_seeks: AtomicBool,
    fail_flushes: AtomicBool,
    /// Maximum number of bytes moved by one read/write call (0 = unlimited).
    chunk: AtomicUsize,
    /// Every n-th read/write is interrupted (0 = never).
    interrupt_every: AtomicUsize,
    ops: AtomicUsize,
    faults: AtomicUsize,
}

impl Ctl {
    fn new() -> Arc<Ctl> {
        let ctl = Ctl::default();
        ctl.countdown.store(-1, Ordering::SeqCst);
        Arc::new(ctl)
    }
    fn disarm(&self) {
        self.countdown.store(-1, Ordering::SeqCst);
    }
    fn arm(&self, after: i64) {
        self.countdown.store(after, Ordering::SeqCst);
    }
    fn trip(&self, enabled: &AtomicBool) -> io::Result<()> {
        if !enabled.load(Ordering::SeqCst) {
            return Ok(());
        }
        let left = self.countdown.load(Ordering::SeqCst);
        if left < 0 {
            return Ok(());
        }
        if left == 0 {
            // Stay tripped: every further eligible operation fails as well,
            // until the test disarms or re-arms the control block.
            self.faults.fetch_add(1, Ordering::SeqCst);
            return Err(io::Error::other("injected fault"));
        }
        self.countdown.store(left - 1, Ordering::SeqCst);
        Ok(())
    }
    fn interrupted(&self) -> io::Result<()> {
        let every = self.interrupt_every.load(Ordering::SeqCst);
        let n = self.ops.fetch_add(1, Ordering::SeqCst);
        if every != 0 && n % every == every - 1 {
            return Err(io::Error::new(io::ErrorKind::Interrupted, "intr"));
        }
        Ok(())
    }
    fn limit(&self, n: usize) -> usize {
        let chunk = self.chunk.load(Ordering::SeqCst);
        if chunk == 0 {
            n
        } else {
            n.min(chunk)
        }
    }
}

struct Shared {
    data: Arc<Mutex<Vec<u8>>>,
    pos: u64,
    ctl: Arc<Ctl>,
}

impl Shared {
    fn new(bytes: Vec<u8>, ctl: &Arc<Ctl>) -> Shared {
        Shared { data: Arc::new(Mutex::new(bytes)), pos: 0, ctl: ctl.clone() }
    }
    fn image(&self) -> Arc<Mutex<Vec<u8>>> {
        self.data.clone()
    }
}

impl Read for Shared {
    fn read(&mut self, buf: &mut [u8]) -> io::Result<usize> {
        self.ctl.trip(&self.ctl.fail_reads)?;
        self.ctl.interrupted()?;
        let data = self.data.lock().unwrap();
        let start = (self.pos as usize).min(data.len());
        let n = self.ctl.limit(buf.len().min(data.len() - start));
        buf[..n].copy_from_slice(&data[start..start + n]);
        self.pos += n as u64;
        Ok(n)
    }
}

impl Write for Shared {
    fn write(&mut self, buf: &[u8]) -> io::Result<usize> {
        self.ctl.trip(&self.ctl.fail_writes)?;
        self.ctl.interrupted()?;
        let mut data = self.data.lock().unwrap();
        let n = self.ctl.limit(buf.len());
        let start = self.pos as usize;
        if data.len() < start + n {
            data.resize(start + n, 0);
        }
        data[start..start + n].copy_from_slice(&buf[..n]);
        self.pos += n as u64;
        Ok(n)
    }
    fn flush(&mut self) -> io::Result<()> {
        self.ctl.trip(&self.ctl.fail_flushes)
    }
}

impl Seek for Shared {
    fn seek(&mut self, pos: SeekFrom) -> io::Result<u64> {
        self.ctl.trip(&self.ctl.fail_seeks)?;
        let len = self.data.lock().unwrap().len() as i128;
        let target = match pos {
            SeekFrom::Start(p) => p as i128,
            SeekFrom::End(d) => len + d as i128,
            SeekFrom::Current(d) => self.pos as i128 + d as i128,
        };
        if target < 0 || target > u64::MAX as i128 {
            return Err(io::Error::new(
                io::ErrorKind::InvalidInput,
                "seek out of range",
            ));
        }
        self.pos = target as u64;
        Ok(self.pos)
    }
}

//===========================================================================//
// Helpers.

const BUFFER_SIZES: &[usize] = &[0, 1024, 1500, 4096, 5000, 65536, 1 << 20];

fn open_shared(
    image: &Arc<Mutex<Vec<u8>>>,
    ctl: &Arc<Ctl>,
    max_buffer_size: usize,
) -> io::Result<CompoundFile<Shared>> {
    let shared = Shared { data: image.clone(), pos: 0, ctl: ctl.clone() };
    OpenOptions::new().max_buffer_size(max_buffer_size).open_with(shared)
}

/// Creates an empty compound file of the given version whose handles use the
/// given maximum buffer size, on a shared backend.
fn create_shared(
    version: Version,
    ctl: &Arc<Ctl>,
    max_buffer_size: usize,
) -> (CompoundFile<Shared>, Arc<Mutex<Vec<u8>>>) {
    let shared = Shared::new(Vec::new(), ctl);
    let image = shared.image();
    let comp = CompoundFile::create_with_version(version, shared).unwrap();
    drop(comp);
    let comp = open_shared(&image, ctl, max_buffer_size).unwrap();
    assert_eq!(comp.version(), version);
    (comp, image)
}

/// Reads a whole stream through a fresh handle, with calls of `step` bytes.
fn read_all<F: Read + Seek>(
    comp: &mut CompoundFile<F>,
    path: &str,
    step: usize,
) -> Vec<u8> {
    let mut stream = comp.open_stream(path).unwrap();
    let mut out = Vec::new();
    let mut chunk = vec![0u8; step.max(1)];
    loop {
        let n = stream.read(&mut chunk).unwrap();
        if n == 0 {
            break;
        }
        out.extend_from_slice(&chunk[..n]);
    }
    assert_eq!(out.len() as u64, stream.len());
    out
}

/// Reopens a copy of the byte image - exactly as it is, without any flush of
/// the compound file - in permissive and strict mode and checks that it holds
/// exactly the modelled streams.
fn check_image(
    image: &Arc<Mutex<Vec<u8>>>,
    model: &BTreeMap<String, Vec<u8>>,
) {
    let bytes = image.lock().unwrap().clone();
    for strict in [false, true] {
        for max_buffer_size in [1024usize, 1 << 20] {
            let mut options =
                OpenOptions::new().max_buffer_size(max_buffer_size);
            if strict {
                options = options.strict();
            }
            let mut comp = options
                .open_with(io::Cursor::new(bytes.clone()))
                .unwrap_or_else(|e| {
                    panic!("reopen (strict={}) failed: {}", strict, e)
                });
            let mut found: Vec<String> = comp
                .walk()
                .filter(|e| e.is_stream())
                .map(|e| e.path().to_str().unwrap().to_string())
                .collect();
            found.sort();
            let expected: Vec<String> = model.keys().cloned().collect();
            assert_eq!(found, expected);
            for (path, content) in model {
                let entry = comp.entry(path).unwrap();
                assert_eq!(entry.len(), content.len() as u64, "{}", path);
                for step in [content.len() + 7, max_buffer_size, 333] {
                    let got = read_all(&mut comp, path, step);
                    assert!(got == *content, "content of {} differs", path);
                }
            }
        }
    }
}

//===========================================================================//
// The model of one handle: a byte vector with a cursor.

struct Model {
    data: Vec<u8>,
    pos: u64,
}

impl Model {
    fn seek(&mut self, pos: SeekFrom) -> Option<u64> {
        let len = self.data.len() as i128;
        let target = match pos {
            SeekFrom::Start(p) => p as i128,
            SeekFrom::End(d) => len + d as i128,
            SeekFrom::Current(d) => self.pos as i128 + d as i128,
        };
        if target < 0 || target > len {
            None
        } else {
            self.pos = target as u64;
            Some(self.pos)
        }
    }
    fn write(&mut self, bytes: &[u8]) {
        let start = self.pos as usize;
        if self.data.len() < start + bytes.len() {
            self.data.resize(start + bytes.len(), 0);
        }
        self.data[start..start + bytes.len()].copy_from_slice(bytes);
        self.pos += bytes.len() as u64;
    }
    fn set_len(&mut self, len: u64) {
        self.data.resize(len as usize, 0);
        self.pos = self.pos.min(len);
    }
    fn remaining(&self) -> &[u8] {
        &self.data[self.pos as usize..]
    }
}

/// Sizes that exercise the limits of the buffer: around the minimum and the
/// configured maximum, around the mini-stream cutoff and mini sector size.
fn pick_size(rng: &mut Rng, max_buffer_size: usize) -> usize {
    let max = max_buffer_size.max(1024);
    if max > 100_000 && rng.below(4) != 0 {
        // Keep the run time in check for the largest buffers.
        return rng.below(9000) as usize;
    }
    match rng.below(10) {
        0 => rng.below(4) as usize,
        1 => rng.pick(&[63, 64, 65, 511, 512, 513]),
        2 => rng.pick(&[1023, 1024, 1025, 4095, 4096, 4097]),
        3 => max - 1,
        4 => max,
        5 => max + 1,
        6 => max.min(70_000) * 2 + rng.below(100) as usize,
        7 => rng.below(300) as usize,
        8 => rng.below(9000) as usize,
        _ => rng.below(40_000) as usize,
    }
}

fn pick_seek(rng: &mut Rng, model: &Model) -> SeekFrom {
    let len = model.data.len() as u64;
    match rng.below(12) {
        0 => SeekFrom::Start(0),
        1 => SeekFrom::Start(len),
        2 => SeekFrom::Start(len + 1 + rng.below(3)),
        3 => SeekFrom::Start(rng.below(len + 1)),
        4 => SeekFrom::End(-(rng.below(len + 1) as i64)),
        5 => SeekFrom::End(1 + rng.below(5) as i64),
        6 => SeekFrom::End(-(len as i64) - 1 - rng.below(3) as i64),
        7 => SeekFrom::Current(rng.below(3000) as i64 - 1500),
        8 => SeekFrom::Current(rng.below(200) as i64 - 100),
        9 => rng.pick(&[
            SeekFrom::Start(u64::MAX),
            SeekFrom::End(i64::MIN),
            SeekFrom::End(i64::MAX),
            SeekFrom::Current(i64::MIN),
            SeekFrom::Current(i64::MAX),
            SeekFrom::Start(i64::MAX as u64 + 1),
        ]),
        10 => SeekFrom::Current(0),
        _ => SeekFrom::Start(rng.below(len + 1)),
    }
}

/// Performs one random operation on the handle and on its model and checks
/// that both agree.  With `exact`, reads and writes are repeated until the
/// whole request is served, so that the returned trace is independent of how
/// a single call is split; otherwise every call is a single call, and short
/// counts are followed by the model.
fn handle_step<F: Read + Write + Seek>(
    rng: &mut Rng,
    stream: &mut Stream<F>,
    model: &mut Model,
    max_buffer_size: usize,
    exact: bool,
    allow_big: bool,
    trace: &mut Vec<String>,
) {
    // In exact mode the requested sizes must not depend on the buffer size
    // either, so that all configurations see the same history.
    let size_base = if exact {
        rng.pick(&[1024usize, 1500, 4096, 5000, 65536])
    } else {
        max_buffer_size
    };
    match rng.below(16) {
        0..=4 => {
            let want = pick_size(rng, size_base);
            let mut buf = vec![0xEEu8; want];
            let mut got = 0;
            loop {
                let n = stream.read(&mut buf[got..]).unwrap();
                assert!(n <= want - got);
                let expect = model.remaining();
                if n == 0 {
                    assert!(
                        got == want || expect.is_empty(),
                        "read returned 0 before the end ({} left, asked {})",
                        expect.len(),
                        want - got
                    );
                    break;
                }
                assert!(
                    buf[got..got + n] == expect[..n],
                    "read returned wrong bytes at {}",
                    model.pos
                );
                model.pos += n as u64;
                got += n;
                if !exact || got == want {
                    break;
                }
            }
            assert!(buf[got..].iter().all(|&b| b == 0xEE));
            if exact {
                trace.push(format!("read {} -> {}", want, got));
            }
        }
        5..=6 => {
            let slice = stream.fill_buf().unwrap();
            let expect = model.remaining();
            assert!(slice.len() <= expect.len());
            assert_eq!(slice.is_empty(), expect.is_empty());
            assert!(slice == &expect[..slice.len()], "fill_buf wrong bytes");
            // How much is available depends on the buffer, so in exact mode
            // consume an amount that does not.
            let amt = if exact {
                (rng.below(2) as usize).min(slice.len())
            } else {
                match rng.below(3) {
                    0 => slice.len(),
                    1 => 0,
                    _ => rng.below(slice.len() as u64 + 1) as usize,
                }
            };
            stream.consume(amt);
            model.pos += amt as u64;
        }
        7..=10 => {
            let mut want = pick_size(rng, size_base);
            if !allow_big {
                want = want.min(6000);
            }
            let bytes = rng.bytes(want);
            let mut done = 0;
            while done < want {
                let n = stream.write(&bytes[done..]).unwrap();
                assert!(n > 0 && n <= want - done);
                model.write(&bytes[done..done + n]);
                done += n;
                if !exact {
                    break;
                }
            }
            if exact {
                trace.push(format!("write {}", want));
            }
        }
        11..=12 => {
            let target = pick_seek(rng, model);
            let result = stream.seek(target);
            match model.seek(target) {
                Some(pos) => assert_eq!(result.unwrap(), pos),
                None => {
                    let err = result.unwrap_err();
                    assert_eq!(err.kind(), io::ErrorKind::InvalidInput);
                }
            }
            trace.push(format!("seek {:?} -> {}", target, model.pos));
        }
        13 => {
            let len = model.data.len() as u64;
            let new_len = match rng.below(8) {
                0 => 0,
                1 => len,
                2 => len / 2,
                3 => len + rng.below(200),
                4 => rng.pick(&[4095u64, 4096, 4097, 64, 65]),
                5 => len.saturating_sub(rng.below(100)),
                6 => model.pos,
                _ => rng.below(if allow_big { 60_000 } else { 9000 }),
            };
            stream.set_len(new_len).unwrap();
            model.set_len(new_len);
            trace.push(format!("set_len {}", new_len));
        }
        14 => {
            stream.flush().unwrap();
            trace.push("flush".to_string());
        }
        _ => {}
    }
    assert_eq!(stream.len(), model.data.len() as u64);
    assert_eq!(stream.is_empty(), model.data.is_empty());
    assert_eq!(stream.stream_position().unwrap(), model.pos);
    trace.push(format!("at {} of {}", model.pos, model.data.len()));
}

//===========================================================================//
// C06 / C18 / C08 / C02: one handle against a byte vector with a cursor.

fn run_single_handle(
    seed: u64,
    version: Version,
    max_buffer_size: usize,
    exact: bool,
    chunk: usize,
    interrupt_every: usize,
    steps: usize,
) -> (Vec<String>, Vec<u8>) {
    let ctl = Ctl::new();
    let (mut comp, image) = create_shared(version, &ctl, max_buffer_size);
    ctl.chunk.store(chunk, Ordering::SeqCst);
    ctl.interrupt_every.store(interrupt_every, Ordering::SeqCst);
    let mut rng = Rng::new(seed);
    // A neighbour whose sectors surround the stream under test.
    let neighbour = rng.bytes(5000);
    comp.create_stream("/neighbour").unwrap().write_all(&neighbour).unwrap();
    let mut stream = comp.create_stream("/s").unwrap();
    let mut model = Model { data: Vec::new(), pos: 0 };
    let mut trace = Vec::new();
    for step in 0..steps {
        handle_step(
            &mut rng,
            &mut stream,
            &mut model,
            max_buffer_size,
            exact,
            true,
            &mut trace,
        );
        if step % 40 == 39 {
            // No handle holds unflushed data now: the bytes alone must
            // reopen to the same state (C02), also through other handles.
            stream.flush().unwrap();
            let mut expected = BTreeMap::new();
            expected.insert("/neighbour".to_string(), neighbour.clone());
            expected.insert("/s".to_string(), model.data.clone());
            check_image(&image, &expected);
            let live = read_all(&mut comp, "/s", max_buffer_size.max(1024));
            assert!(live == model.data);
        }
    }
    stream.flush().unwrap();
    drop(stream);
    let content = read_all(&mut comp, "/s", 1 << 21);
    assert!(content == model.data);
    assert!(read_all(&mut comp, "/neighbour", 1 << 21) == neighbour);
    (trace, content)
}

#[test]
fn single_handle_matches_byte_vector_single_calls() {
    for (i, &max_buffer_size) in BUFFER_SIZES.iter().enumerate() {
        for version in [Version::V3, Version::V4] {
            for seed in 0..6 {
                run_single_handle(
                    1000 + seed * 17 + i as u64,
                    version,
                    max_buffer_size,
                    false,
                    0,
                    0,
                    220,
                );
            }
        }
    }
}

#[test]
fn results_do_not_depend_on_buffer_size_version_or_chunking() {
    for seed in 0..6 {
        let mut reference: Option<(Vec<String>, Vec<u8>)> = None;
        for &max_buffer_size in BUFFER_SIZES {
            for version in [Version::V3, Version::V4] {
                for &(chunk, interrupt_every) in &[(0, 0), (97, 5)] {
                    if chunk != 0 && max_buffer_size > 5000 {
                        continue;
                    }
                    let result = run_single_handle(
                        77 + seed,
                        version,
                        max_buffer_size,
                        true,
                        chunk,
                        interrupt_every,
                        120,
                    );
                    match &reference {
                        None => reference = Some(result),
                        Some(expected) => {
                            assert!(
                                expected.0 == result.0,
                                "trace differs: seed {} buffer {} {:?}",
                                seed,
                                max_buffer_size,
                                version
                            );
                            assert!(expected.1 == result.1);
                        }
                    }
                }
            }
        }
    }
}

//===========================================================================//
// C18: a real file and an in-memory buffer give the same bytes.

fn drive<F: Read + Write + Seek>(
    comp: &mut CompoundFile<F>,
    seed: u64,
    max_buffer_size: usize,
) -> Vec<String> {
    // Pin the only timestamps in the file.
    let epoch = std::time::UNIX_EPOCH;
    comp.set_created_time("/", epoch).unwrap();
    comp.set_modified_time("/", epoch).unwrap();
    let mut rng = Rng::new(seed);
    let mut stream = comp.create_stream("/s").unwrap();
    let mut model = Model { data: Vec::new(), pos: 0 };
    let mut trace = Vec::new();
    for _ in 0..150 {
        handle_step(
            &mut rng,
            &mut stream,
            &mut model,
            max_buffer_size,
            false,
            true,
            &mut trace,
        );
    }
    stream.flush().unwrap();
    drop(stream);
    assert!(read_all(comp, "/s", max_buffer_size.max(1024)) == model.data);
    comp.flush().unwrap();
    trace
}

#[test]
fn real_file_and_memory_give_identical_bytes() {
    let dir = std::path::Path::new(env!("CARGO_TARGET_TMPDIR"))
        .join(format!("cfb-feature-check-{}", std::process::id()));
    std::fs::create_dir_all(&dir).unwrap();
    for (i, &max) in [1024usize, 4096, 1 << 20].iter().enumerate() {
        let seed = 600 + i as u64;
        let options = || OpenOptions::new().max_buffer_size(max);
        let mut in_memory =
            options().create_with(io::Cursor::new(Vec::new())).unwrap();
        let memory_trace = drive(&mut in_memory, seed, max);
        let memory_bytes = in_memory.into_inner().into_inner();
        let mut again =
            options().create_with(io::Cursor::new(Vec::new())).unwrap();
        assert!(drive(&mut again, seed, max) == memory_trace);
        assert!(again.into_inner().into_inner() == memory_bytes);
        let path = dir.join(format!("file{}.cfb", i));
        let mut on_disk = options().create(&path).unwrap();
        let disk_trace = drive(&mut on_disk, seed, max);
        drop(on_disk);
        let disk_bytes = std::fs::read(&path).unwrap();
        assert!(disk_trace == memory_trace);
        assert!(disk_bytes == memory_bytes, "file and memory differ");
        // And the file reopens, in strict mode too, through the path API.
        let mut reopened = options().strict().open(&path).unwrap();
        let content = read_all(&mut reopened, "/s", max);
        let mut check = OpenOptions::new()
            .open_with(io::Cursor::new(memory_bytes))
            .unwrap();
        assert!(content == read_all(&mut check, "/s", 777));
    }
    std::fs::remove_dir_all(&dir).unwrap();
}

//===========================================================================//
// Deterministic boundary cases for large reads.

#[test]
fn large_reads_at_buffer_boundaries() {
    for version in [Version::V3, Version::V4] {
        for &max in &[1024usize, 4096, 5000] {
            for &len in &[
                0usize,
                1,
                64,
                max - 1,
                max,
                max + 1,
                4095,
                4096,
                4097,
                3 * max + 5,
                20_000,
            ] {
                let ctl = Ctl::new();
                let (mut comp, image) = create_shared(version, &ctl, max);
                let mut rng = Rng::new(len as u64 * 31 + max as u64);
                let data = rng.bytes(len);
                let mut stream = comp.create_stream("/s").unwrap();
                stream.write_all(&data).unwrap();
                // A dirty handle, positioned at the end of its window: a big
                // read from the start must see the bytes just written.
                stream.seek(SeekFrom::Start(0)).unwrap();
                for &ask in &[max - 1, max, max + 1, len + 1, 2 * len + max] {
                    for &from in
                        &[0usize, 1, len / 2, len.saturating_sub(1), len]
                    {
                        let from = from.min(len);
                        stream.seek(SeekFrom::Start(from as u64)).unwrap();
                        let mut buf = vec![0x55u8; ask];
                        let n = stream.read(&mut buf).unwrap();
                        assert!(n <= ask.min(len - from));
                        assert_eq!(n == 0, ask == 0 || from == len);
                        assert!(buf[..n] == data[from..from + n]);
                        assert!(buf[n..].iter().all(|&b| b == 0x55));
                        assert_eq!(
                            stream.stream_position().unwrap(),
                            (from + n) as u64
                        );
                        // The handle stays usable for buffered access and
                        // for writing right after the large read.
                        let rest = stream.fill_buf().unwrap();
                        assert_eq!(rest.is_empty(), from + n == len);
                        assert!(
                            rest == &data[from + n..from + n + rest.len()]
                        );
                    }
                }
                // Overwrite in the middle after a big read, then read on.
                if len > 10 {
                    stream.seek(SeekFrom::Start(0)).unwrap();
                    let mut buf = vec![0u8; len / 2 + max];
                    let n = stream.read(&mut buf).unwrap();
                    assert!(n > 0);
                    let patch = [0xAAu8; 5];
                    let at = n.min(len - 5);
                    stream.seek(SeekFrom::Start(at as u64)).unwrap();
                    stream.write_all(&patch).unwrap();
                    let mut expected = data.clone();
                    expected[at..at + 5].copy_from_slice(&patch);
                    // A large read right behind unflushed bytes.
                    let mut tail = vec![0u8; len + max];
                    let mut got = Vec::new();
                    loop {
                        let n = stream.read(&mut tail).unwrap();
                        if n == 0 {
                            break;
                        }
                        got.extend_from_slice(&tail[..n]);
                    }
                    assert!(got == expected[at + 5..]);
                    stream.seek(SeekFrom::Start(0)).unwrap();
                    let mut all = Vec::new();
                    stream.read_to_end(&mut all).unwrap();
                    assert!(all == expected);
                    stream.flush().unwrap();
                    let mut model = BTreeMap::new();
                    model.insert("/s".to_string(), expected);
                    check_image(&image, &model);
                }
            }
        }
    }
}

#[test]
fn grown_bytes_read_as_zero_through_large_reads() {
    for version in [Version::V3, Version::V4] {
        for &max in &[1024usize, 4096] {
            let ctl = Ctl::new();
            let (mut comp, image) = create_shared(version, &ctl, max);
            let mut rng = Rng::new(5);
            // Fill space with non-zero bytes and release it again, so that
            // reused sectors hold stale data.
            for name in ["/a", "/b", "/c"] {
                let junk = rng.bytes(9000);
                comp.create_stream(name).unwrap().write_all(&junk).unwrap();
            }
            comp.remove_stream("/a").unwrap();
            comp.remove_stream("/c").unwrap();
            let mut stream = comp.create_stream("/s").unwrap();
            let mut model = Model { data: Vec::new(), pos: 0 };
            let head = rng.bytes(7000);
            stream.write_all(&head).unwrap();
            model.write(&head);
            for &len in &[100u64, 5000, 70, 4096, 4095, 12_000, 3000, 16_000] {
                stream.set_len(len).unwrap();
                model.set_len(len);
                stream.seek(SeekFrom::Start(0)).unwrap();
                let mut buf = vec![0xEEu8; len as usize + max];
                let mut got = Vec::new();
                loop {
                    let n = stream.read(&mut buf).unwrap();
                    if n == 0 {
                        break;
                    }
                    got.extend_from_slice(&buf[..n]);
                }
                assert!(got == model.data, "after set_len({})", len);
                // Leave some non-zero bytes at the end for the next shrink.
                if len > 50 {
                    let tail = rng.bytes(40);
                    stream.seek(SeekFrom::End(-40)).unwrap();
                    model.seek(SeekFrom::End(-40));
                    stream.write_all(&tail).unwrap();
                    model.write(&tail);
                }
                stream.flush().unwrap();
                let mut expected = BTreeMap::new();
                expected.insert("/s".to_string(), model.data.clone());
                let b = read_all(&mut comp, "/b", max);
                expected.insert("/b".to_string(), b);
                check_image(&image, &expected);
            }
        }
    }
}

//===========================================================================//
// C07 / C01 / C02: several handles, interleaved, with namespace changes.

#[test]
fn several_handles_stay_bound_and_independent() {
    for (round, &max) in [1024usize, 4096, 1500, 1 << 20].iter().enumerate() {
        for version in [Version::V3, Version::V4] {
            let ctl = Ctl::new();
            let (mut comp, image) = create_shared(version, &ctl, max);
            let mut rng = Rng::new(4242 + round as u64);
            comp.create_storage("/dir").unwrap();
            let names = ["/one", "/dir/two", "/three"];
            let mut handles = Vec::new();
            let mut models = Vec::new();
            for name in names {
                handles.push(comp.create_stream(name).unwrap());
                models.push(Model { data: Vec::new(), pos: 0 });
            }
            let mut others: BTreeMap<String, Vec<u8>> = BTreeMap::new();
            let mut trace = Vec::new();
            for step in 0..300 {
                let which = rng.below(4) as usize;
                if which < 3 {
                    handle_step(
                        &mut rng,
                        &mut handles[which],
                        &mut models[which],
                        max,
                        false,
                        false,
                        &mut trace,
                    );
                } else {
                    // Create, overwrite or remove unrelated streams.
                    let name = format!("/dir/x{}", rng.below(4));
                    if others.contains_key(&name) && rng.below(2) == 0 {
                        comp.remove_stream(&name).unwrap();
                        others.remove(&name);
                    } else {
                        let size = pick_size(&mut rng, max).min(7000);
                        let data = rng.bytes(size);
                        comp.create_stream(&name)
                            .unwrap()
                            .write_all(&data)
                            .unwrap();
                        others.insert(name, data);
                    }
                }
                if step % 50 == 49 {
                    let mut expected = others.clone();
                    for i in 0..3 {
                        handles[i].flush().unwrap();
                        expected.insert(
                            names[i].to_string(),
                            models[i].data.clone(),
                        );
                    }
                    check_image(&image, &expected);
                    for (path, content) in &expected {
                        assert!(read_all(&mut comp, path, max) == *content);
                    }
                }
            }
        }
    }
}

//===========================================================================//
// C12: read and seek failures of the underlying file on a read-only file.

fn build_image(
    version: Version,
    seed: u64,
) -> (Vec<u8>, Vec<(String, Vec<u8>)>) {
    let mut rng = Rng::new(seed);
    let cursor = io::Cursor::new(Vec::new());
    let mut comp = CompoundFile::create_with_version(version, cursor).unwrap();
    comp.create_storage("/st").unwrap();
    let mut streams = Vec::new();
    for (name, len) in [
        ("/empty", 0usize),
        ("/mini", 1500),
        ("/st/edge", 4095),
        ("/st/cut", 4096),
        ("/big", 30_000),
        ("/tiny", 10),
    ] {
        let data = rng.bytes(len);
        comp.create_stream(name).unwrap().write_all(&data).unwrap();
        streams.push((name.to_string(), data));
    }
    // Fragment: remove and re-create, so that chains are not contiguous.
    comp.remove_stream("/tiny").unwrap();
    streams.pop();
    let data = rng.bytes(9000);
    comp.create_stream("/frag").unwrap().write_all(&data).unwrap();
    streams.push(("/frag".to_string(), data));
    comp.flush().unwrap();
    (comp.into_inner().into_inner(), streams)
}

#[test]
fn read_faults_never_yield_wrong_data() {
    let mut total_faults = 0;
    for version in [Version::V3, Version::V4] {
        let (bytes, streams) = build_image(version, 9);
        for &max in &[1024usize, 4096, 1 << 20] {
            for seed in 0..10u64 {
                let mut rng = Rng::new(seed * 101 + max as u64);
                let ctl = Ctl::new();
                ctl.fail_reads.store(true, Ordering::SeqCst);
                ctl.fail_seeks.store(true, Ordering::SeqCst);
                if seed % 2 == 1 {
                    ctl.chunk.store(61, Ordering::SeqCst);
                    ctl.interrupt_every.store(7, Ordering::SeqCst);
                }
                let image = Arc::new(Mutex::new(bytes.clone()));
                // Faults while opening: an error, or the right file.
                ctl.arm(rng.below(40) as i64);
                let opened = open_shared(&image, &ctl, max);
                ctl.disarm();
                let mut comp = match opened {
                    Ok(comp) => comp,
                    Err(_) => open_shared(&image, &ctl, max).unwrap(),
                };
                for (path, data) in &streams {
                    ctl.disarm();
                    let mut stream = comp.open_stream(path).unwrap();
                    let mut model = Model { data: data.clone(), pos: 0 };
                    for _ in 0..60 {
                        if rng.below(3) == 0 {
                            ctl.arm(rng.below(8) as i64);
                        } else {
                            ctl.disarm();
                        }
                        match rng.below(4) {
                            0 | 1 => {
                                let want = pick_size(&mut rng, max);
                                let mut buf = vec![0u8; want];
                                match stream.read(&mut buf) {
                                    Ok(n) => {
                                        let expect = model.remaining();
                                        assert!(n <= want.min(expect.len()));
                                        assert_eq!(
                                            n == 0,
                                            want == 0 || expect.is_empty()
                                        );
                                        assert!(
                                            buf[..n] == expect[..n],
                                            "wrong bytes after faults"
                                        );
                                        model.pos += n as u64;
                                    }
                                    Err(_) => {}
                                }
                            }
                            2 => match stream.fill_buf() {
                                Ok(slice) => {
                                    let expect = model.remaining();
                                    assert!(slice.len() <= expect.len());
                                    assert_eq!(
                                        slice.is_empty(),
                                        expect.is_empty()
                                    );
                                    assert!(slice == &expect[..slice.len()]);
                                    let amt =
                                        rng.below(slice.len() as u64 + 1);
                                    stream.consume(amt as usize);
                                    model.pos += amt;
                                }
                                Err(_) => {}
                            },
                            _ => {
                                let target = pick_seek(&mut rng, &model);
                                let before = model.pos;
                                let expected = model.seek(target);
                                match stream.seek(target) {
                                    Ok(pos) => {
                                        assert_eq!(Some(pos), expected)
                                    }
                                    Err(_) => model.pos = before,
                                }
                            }
                        }
                        // A failed call must not have moved the position.
                        ctl.disarm();
                        assert_eq!(
                            stream.stream_position().unwrap(),
                            model.pos
                        );
                        assert_eq!(stream.len(), data.len() as u64);
                    }
                    // After all the faults the handle still reads the truth.
                    ctl.disarm();
                    stream.seek(SeekFrom::Start(0)).unwrap();
                    let mut all = Vec::new();
                    stream.read_to_end(&mut all).unwrap();
                    assert!(all == *data);
                }
                total_faults += ctl.faults.load(Ordering::SeqCst);
                assert!(*image.lock().unwrap() == bytes);
            }
        }
    }
    assert!(total_faults > 100, "only {} faults injected", total_faults);
}

//===========================================================================//
// C13: write failures are reported; a successful flush means durable.

#[test]
fn write_faults_are_reported_and_flush_is_durable() {
    let mut total_faults = 0;
    let mut checked = 0;
    for version in [Version::V3, Version::V4] {
        for &max in &[1024usize, 4096] {
            for seed in 0..80u64 {
                let mut rng = Rng::new(seed * 7 + max as u64);
                let ctl = Ctl::new();
                let (mut comp, _image) = create_shared(version, &ctl, max);
                let base_len = rng.pick(&[0usize, 300, 5000, 12_000]);
                let base = rng.bytes(base_len);
                {
                    let mut s = comp.create_stream("/s").unwrap();
                    s.write_all(&base).unwrap();
                    s.flush().unwrap();
                }
                let mut stream = comp.open_stream("/s").unwrap();
                // The model only follows bytes accepted by `write`.
                let mut model = Model { data: base.clone(), pos: 0 };
                ctl.fail_writes.store(true, Ordering::SeqCst);
                ctl.fail_flushes.store(rng.below(2) == 0, Ordering::SeqCst);
                ctl.fail_seeks.store(rng.below(3) == 0, Ordering::SeqCst);
                let mut failed = false;
                for _ in 0..12 {
                    if rng.below(2) == 0 {
                        ctl.arm(rng.below(6) as i64);
                    } else {
                        ctl.disarm();
                    }
                    match rng.below(5) {
                        0 | 1 => {
                            let want = pick_size(&mut rng, max).min(5000);
                            let bytes = rng.bytes(want);
                            match stream.write(&bytes) {
                                Ok(n) => model.write(&bytes[..n]),
                                Err(_) => failed = true,
                            }
                        }
                        2 => {
                            // A large read behind unflushed bytes has to
                            // write them back first; it may fail, but must
                            // never return wrong bytes or lose the data.
                            let mut buf =
                                vec![0u8; max + rng.below(3000) as usize];
                            match stream.read(&mut buf) {
                                Ok(n) => {
                                    assert!(
                                        buf[..n] == model.remaining()[..n]
                                    );
                                    model.pos += n as u64;
                                }
                                Err(_) => failed = true,
                            }
                        }
                        3 => {
                            let to = rng.below(model.data.len() as u64 + 1);
                            match stream.seek(SeekFrom::Start(to)) {
                                Ok(_) => model.pos = to,
                                Err(_) => failed = true,
                            }
                        }
                        _ => {
                            if stream.flush().is_err() {
                                failed = true;
                            }
                        }
                    }
                    if failed && rng.below(3) == 0 {
                        break;
                    }
                }
                total_faults += ctl.faults.load(Ordering::SeqCst);
                // The fault is gone; a flush that now succeeds must make
                // every accepted byte durable.  (After a failure inside the
                // allocator later calls may legitimately keep failing.)
                ctl.disarm();
                if stream.flush().is_ok() {
                    let fresh = {
                        let mut s = comp.open_stream("/s").unwrap();
                        let mut all = Vec::new();
                        s.read_to_end(&mut all).map(|_| all)
                    };
                    if let Ok(all) = fresh {
                        assert!(
                            all == model.data,
                            "flush returned Ok but data is not there \
                             (seed {}, max {}, {:?})",
                            seed,
                            max,
                            version
                        );
                        checked += 1;
                    }
                }
            }
        }
    }
    assert!(total_faults > 20, "only {} faults injected", total_faults);
    assert!(checked > 80, "only {} histories verified", checked);
}

//===========================================================================//
// C14: read-only calls from other threads while handles do I/O.

#[test]
fn concurrent_readers_with_large_stream_reads() {
    let ctl = Ctl::new();
    let (mut comp, _image) = create_shared(Version::V4, &ctl, 1024);
    let mut rng = Rng::new(33);
    let data_a = rng.bytes(50_000);
    let data_b = rng.bytes(3000);
    comp.create_storage("/st").unwrap();
    comp.create_stream("/a").unwrap().write_all(&data_a).unwrap();
    comp.create_stream("/st/b").unwrap().write_all(&data_b).unwrap();
    let mut handle_a = comp.open_stream("/a").unwrap();
    let mut handle_b = comp.open_stream("/st/b").unwrap();
    let comp = &comp;
    let stop = AtomicBool::new(false);
    std::thread::scope(|scope| {
        for _ in 0..3 {
            scope.spawn(|| {
                while !stop.load(Ordering::SeqCst) {
                    assert!(comp.exists("/a"));
                    assert!(comp.is_stream("/st/b"));
                    assert!(comp.is_storage("/st"));
                    assert_eq!(comp.entry("/a").unwrap().len(), 50_000);
                    assert_eq!(comp.root_entry().name(), "Root Entry");
                    assert_eq!(comp.walk().count(), 4);
                    assert_eq!(comp.read_storage("/st").unwrap().count(), 1);
                }
            });
        }
        // Stream handles are not `Send`; they are used on this thread while
        // the spawned threads share the compound file by reference.
        {
            let mut rng = Rng::new(1);
            for _ in 0..200 {
                let from = rng.below(50_000);
                handle_a.seek(SeekFrom::Start(from)).unwrap();
                let mut buf = vec![0u8; pick_size(&mut rng, 1024)];
                let n = handle_a.read(&mut buf).unwrap();
                assert!(buf[..n] == data_a[from as usize..from as usize + n]);
                // Rewrite the same bytes: content stays what readers expect.
                handle_a.seek(SeekFrom::Start(from)).unwrap();
                handle_a.write_all(&buf[..n]).unwrap();
                handle_b.seek(SeekFrom::Start(0)).unwrap();
                let mut all = vec![0u8; 5000];
                let n = handle_b.read(&mut all).unwrap();
                assert!(n > 0 && all[..n] == data_b[..n]);
            }
            handle_a.flush().unwrap();
        }
        stop.store(true, Ordering::SeqCst);
    });
}

//===========================================================================//
// C05 / C11: damaged input never panics or hangs, also with large reads.

#[test]
fn damaged_files_are_read_without_panic() {
    for version in [Version::V3, Version::V4] {
        let (bytes, _streams) = build_image(version, 21);
        let mut rng = Rng::new(99);
        for _ in 0..300 {
            let mut damaged = bytes.clone();
            for _ in 0..1 + rng.below(4) {
                let at = match rng.below(3) {
                    // Header, FAT / directory area, anywhere.
                    0 => rng.below(512),
                    1 => rng.below(damaged.len().min(8192) as u64),
                    _ => rng.below(damaged.len() as u64),
                } as usize;
                damaged[at] = match rng.below(3) {
                    0 => 0xFF,
                    1 => 0,
                    _ => rng.next() as u8,
                };
            }
            for &max in &[1024usize, 1 << 20] {
                let cursor = io::Cursor::new(damaged.clone());
                let mut comp = match OpenOptions::new()
                    .max_buffer_size(max)
                    .open_with(cursor)
                {
                    Ok(comp) => comp,
                    Err(_) => continue,
                };
                let paths: Vec<_> = comp
                    .walk()
                    .filter(|e| e.is_stream())
                    .map(|e| e.path().to_path_buf())
                    .collect();
                for path in paths {
                    let mut stream = match comp.open_stream(&path) {
                        Ok(stream) => stream,
                        Err(_) => continue,
                    };
                    let len = stream.len();
                    let mut buf = vec![0u8; 40_000];
                    let mut total = 0u64;
                    for _ in 0..100 {
                        match stream.read(&mut buf) {
                            Ok(0) | Err(_) => break,
                            Ok(n) => total += n as u64,
                        }
                    }
                    assert!(total <= len);
                    let _ = stream.seek(SeekFrom::End(0));
                    let _ = stream.seek(SeekFrom::Start(len / 2));
                    let _ = stream.read(&mut buf[..2000]);
                    let _ = stream.fill_buf().map(|s| s.len());
                    // Mutations on an accepted file: Ok or Err, no panic.
                    let _ = stream.write(&[1, 2, 3]);
                    let _ = stream.read(&mut buf);
                    if len < 1_000_000 {
                        let _ = stream.set_len(len / 3);
                    }
                    let _ = stream.flush();
                }
            }
        }
    }
}
