//! Behavioural checks written for the locking clean-up (one lock acquisition
//! per public operation).  Only the public API and std are used, so the file
//! runs unchanged against the library before and after the change.
//!
//! Contents:
//!  * randomized histories against an in-memory model, with several open
//!    handles, for both versions, several buffer sizes and I/O chunkings;
//!    the byte image is reopened (strict and permissive) and compared, and
//!    rejected calls must leave the image untouched (C01, C02, C06-C10, C16);
//!  * the same history gives the same bytes on every run and for every
//!    chunking of the underlying transfers (C18);
//!  * write faults at every position of a write/flush sequence, followed by
//!    a retry (C13), faults during namespace operations (no panic, no hang),
//!    and read faults on a read-only file (C12);
//!  * readers on other threads while the main thread does stream I/O (C14);
//!  * net-zero cycles do not grow the file (C15).

use cfb::{CompoundFile, OpenOptions, Stream, Version};
use std::collections::BTreeMap;
use std::io::{
    self, BufRead, Cursor, ErrorKind, Read, Seek, SeekFrom, Write,
};
use std::sync::atomic::{AtomicBool, AtomicUsize, Ordering};
use std::sync::{mpsc, Arc, Mutex};
use std::thread;
use std::time::{Duration, UNIX_EPOCH};

//===========================================================================//
// The crate is built for the 2018 edition, in which `assert!` and `panic!`
// do not interpolate a lone string literal; these always format.

macro_rules! fail {
    ($($arg:tt)+) => { panic!("{}", format!($($arg)+)) };
}

macro_rules! check {
    ($cond:expr) => { assert!($cond) };
    ($cond:expr, $($arg:tt)+) => {
        if !$cond {
            fail!($($arg)+)
        }
    };
}

//===========================================================================//
// A small deterministic PRNG.

struct Rng(u64);

impl Rng {
    fn new(seed: u64) -> Rng {
        Rng(seed.wrapping_mul(0x9E37_79B9_7F4A_7C15) | 1)
    }
    fn next(&mut self) -> u64 {
        let mut x = self.0;
        x ^= x >> 12;
        x ^= x << 25;
        x ^= x >> 27;
        self.0 = x;
        x.wrapping_mul(0x2545_F491_4F6C_DD1D)
    }
    fn below(&mut self, n: u64) -> u64 {
        (self.next() >> 11) % n
    }
    fn bytes(&mut self, n: usize) -> Vec<u8> {
        (0..n).map(|_| (self.next() >> 24) as u8 | 1).collect()
    }
}

fn fnv(data: &[u8]) -> u64 {
    let mut h = 0xcbf2_9ce4_8422_2325u64;
    for &b in data {
        h = (h ^ b as u64).wrapping_mul(0x100_0000_01b3);
    }
    h
}

//===========================================================================//
// The underlying "file": shared bytes that can be looked at any time, with
// fault injection, transfer chunking and a trace of the calls made.

struct Disk {
    data: Vec<u8>,
    ops: u64,
    trace: u64,
    fail_from: u64,
    fail_to: u64,
    fail_reads_only: bool,
    chunk: usize,
}

struct Backend {
    disk: Arc<Mutex<Disk>>,
    pos: u64,
}

impl Backend {
    fn from_bytes(data: Vec<u8>, chunk: usize) -> Backend {
        Backend {
            disk: Arc::new(Mutex::new(Disk {
                data,
                ops: 0,
                trace: 0,
                fail_from: u64::MAX,
                fail_to: u64::MAX,
                fail_reads_only: false,
                chunk,
            })),
            pos: 0,
        }
    }
    fn new(chunk: usize) -> Backend {
        Backend::from_bytes(Vec::new(), chunk)
    }
    fn disk(&self) -> Arc<Mutex<Disk>> {
        self.disk.clone()
    }
    fn tick(&self, kind: u8, len: usize) -> io::Result<()> {
        let mut d = self.disk.lock().unwrap();
        let n = d.ops;
        d.ops += 1;
        d.trace = (d.trace ^ kind as u64 ^ (self.pos << 8) ^ ((len as u64) << 44))
            .wrapping_mul(0x100_0000_01b3);
        if n >= d.fail_from
            && n < d.fail_to
            && !(d.fail_reads_only && (kind == 1 || kind == 3))
        {
            return Err(io::Error::other("injected fault"));
        }
        Ok(())
    }
}

fn snapshot(disk: &Arc<Mutex<Disk>>) -> Vec<u8> {
    disk.lock().unwrap().data.clone()
}
fn ops(disk: &Arc<Mutex<Disk>>) -> u64 {
    disk.lock().unwrap().ops
}
/// Makes the calls number `skip .. skip + count`, counted from now, fail.
fn arm(disk: &Arc<Mutex<Disk>>, skip: u64, count: u64) {
    let mut d = disk.lock().unwrap();
    d.fail_from = d.ops + skip;
    d.fail_to = d.fail_from + count;
}
fn disarm(disk: &Arc<Mutex<Disk>>) {
    let mut d = disk.lock().unwrap();
    d.fail_from = u64::MAX;
    d.fail_to = u64::MAX;
}

impl Read for Backend {
    fn read(&mut self, buf: &mut [u8]) -> io::Result<usize> {
        self.tick(0, buf.len())?;
        let d = self.disk.lock().unwrap();
        let len = d.data.len() as u64;
        if self.pos >= len {
            return Ok(0);
        }
        let mut n = buf.len().min((len - self.pos) as usize);
        if d.chunk > 0 {
            n = n.min(d.chunk);
        }
        let p = self.pos as usize;
        buf[..n].copy_from_slice(&d.data[p..p + n]);
        self.pos += n as u64;
        Ok(n)
    }
}

impl Write for Backend {
    fn write(&mut self, buf: &[u8]) -> io::Result<usize> {
        self.tick(1, buf.len())?;
        let mut d = self.disk.lock().unwrap();
        let mut n = buf.len();
        if d.chunk > 0 {
            n = n.min(d.chunk);
        }
        let p = self.pos as usize;
        if d.data.len() < p + n {
            d.data.resize(p + n, 0);
        }
        d.data[p..p + n].copy_from_slice(&buf[..n]);
        self.pos += n as u64;
        Ok(n)
    }
    fn flush(&mut self) -> io::Result<()> {
        self.tick(3, 0)
    }
}

impl Seek for Backend {
    fn seek(&mut self, to: SeekFrom) -> io::Result<u64> {
        self.tick(2, 0)?;
        let len = self.disk.lock().unwrap().data.len() as i128;
        let new = match to {
            SeekFrom::Start(p) => p as i128,
            SeekFrom::End(d) => len + d as i128,
            SeekFrom::Current(d) => self.pos as i128 + d as i128,
        };
        if new < 0 || new > u64::MAX as i128 {
            return Err(io::Error::new(ErrorKind::InvalidInput, "bad seek"));
        }
        self.pos = new as u64;
        Ok(self.pos)
    }
}

//===========================================================================//
// The abstract model: a tree of storages with case-insensitively unique
// names whose leaves are byte vectors.

#[derive(Clone, Debug, PartialEq)]
enum Kind {
    Storage,
    Stream(Vec<u8>),
}

#[derive(Clone, Debug)]
struct Item {
    name: String,
    kind: Kind,
    bits: u32,
}

type Key = Vec<String>;

fn key_of(comps: &[String]) -> Key {
    comps.iter().map(|c| c.to_ascii_uppercase()).collect()
}

fn valid_name(name: &str) -> bool {
    name.encode_utf16().count() <= 31
        && !name.contains(|c| c == '/' || c == '\\' || c == ':' || c == '!')
}

/// (path, is_stream, stream length, state bits)
type Row = (String, bool, u64, u32);

#[derive(Clone)]
struct Model {
    items: BTreeMap<Key, Item>,
}

impl Model {
    fn new() -> Model {
        let mut items = BTreeMap::new();
        items.insert(
            Vec::new(),
            Item { name: "Root Entry".into(), kind: Kind::Storage, bits: 0 },
        );
        Model { items }
    }
    fn names_of(&self, key: &Key) -> Vec<String> {
        (1..=key.len())
            .map(|n| self.items[&key[..n].to_vec()].name.clone())
            .collect()
    }
    fn path_of(&self, key: &Key) -> String {
        format!("/{}", self.names_of(key).join("/"))
    }
    fn children(&self, key: &Key) -> Vec<Key> {
        let mut kids: Vec<Key> = self
            .items
            .keys()
            .filter(|k| k.len() == key.len() + 1 && k.starts_with(key))
            .cloned()
            .collect();
        // CFB order: shorter names first, then by upper-cased code units.
        kids.sort_by(|a, b| {
            let (a, b) = (a.last().unwrap(), b.last().unwrap());
            a.len().cmp(&b.len()).then(a.as_bytes().cmp(b.as_bytes()))
        });
        kids
    }
    fn row(&self, key: &Key) -> Row {
        let item = &self.items[key];
        match &item.kind {
            Kind::Storage => (self.path_of(key), false, 0, item.bits),
            Kind::Stream(d) => {
                (self.path_of(key), true, d.len() as u64, item.bits)
            }
        }
    }
    fn preorder(&self, key: &Key, out: &mut Vec<Row>) {
        out.push(self.row(key));
        for kid in self.children(key) {
            self.preorder(&kid, out);
        }
    }
    fn is_storage(&self, key: &[String]) -> bool {
        matches!(self.items.get(key), Some(Item { kind: Kind::Storage, .. }))
    }
    fn parent_check(&self, key: &Key) -> Result<(), ErrorKind> {
        if !self.is_storage(&key[..key.len() - 1]) {
            return Err(ErrorKind::NotFound);
        }
        Ok(())
    }
    fn create_storage(&mut self, comps: &[String]) -> Result<(), ErrorKind> {
        let key = key_of(comps);
        if self.items.contains_key(&key) {
            return Err(ErrorKind::AlreadyExists);
        }
        self.parent_check(&key)?;
        let name = comps.last().unwrap();
        if !valid_name(name) {
            return Err(ErrorKind::InvalidInput);
        }
        let item = Item { name: name.clone(), kind: Kind::Storage, bits: 0 };
        self.items.insert(key, item);
        Ok(())
    }
    fn create_storage_all(
        &mut self,
        comps: &[String],
    ) -> Result<(), ErrorKind> {
        if comps.iter().any(|c| !valid_name(c)) {
            return Err(ErrorKind::InvalidInput);
        }
        for n in 1..=comps.len() {
            if self.is_storage(&key_of(&comps[..n])) {
                continue;
            }
            self.create_storage(&comps[..n])?;
        }
        Ok(())
    }
    fn remove_storage(&mut self, comps: &[String]) -> Result<(), ErrorKind> {
        let key = key_of(comps);
        match self.items.get(&key) {
            None => return Err(ErrorKind::NotFound),
            Some(item) => {
                if key.is_empty()
                    || item.kind != Kind::Storage
                    || !self.children(&key).is_empty()
                {
                    return Err(ErrorKind::InvalidInput);
                }
            }
        }
        self.items.remove(&key);
        Ok(())
    }
    fn remove_storage_all(
        &mut self,
        comps: &[String],
    ) -> Result<(), ErrorKind> {
        let key = key_of(comps);
        if !self.items.contains_key(&key) {
            return Err(ErrorKind::NotFound);
        }
        self.items.retain(|k, _| k.is_empty() || !k.starts_with(&key));
        Ok(())
    }
    fn create_stream(
        &mut self,
        comps: &[String],
        overwrite: bool,
    ) -> Result<(), ErrorKind> {
        let key = key_of(comps);
        if let Some(item) = self.items.get_mut(&key) {
            if item.kind == Kind::Storage || !overwrite {
                return Err(ErrorKind::AlreadyExists);
            }
            item.kind = Kind::Stream(Vec::new());
            return Ok(());
        }
        self.parent_check(&key)?;
        let name = comps.last().unwrap();
        if !valid_name(name) {
            return Err(ErrorKind::InvalidInput);
        }
        let kind = Kind::Stream(Vec::new());
        self.items.insert(key, Item { name: name.clone(), kind, bits: 0 });
        Ok(())
    }
    fn remove_stream(&mut self, comps: &[String]) -> Result<(), ErrorKind> {
        let key = key_of(comps);
        match self.items.get(&key) {
            None => return Err(ErrorKind::NotFound),
            Some(item) if item.kind == Kind::Storage => {
                return Err(ErrorKind::InvalidInput)
            }
            Some(_) => {}
        }
        self.items.remove(&key);
        Ok(())
    }
    fn open_stream(&self, comps: &[String]) -> Result<(), ErrorKind> {
        match self.items.get(&key_of(comps)) {
            None => Err(ErrorKind::NotFound),
            Some(item) if item.kind == Kind::Storage => {
                Err(ErrorKind::InvalidInput)
            }
            Some(_) => Ok(()),
        }
    }
    fn data_mut(&mut self, key: &Key) -> &mut Vec<u8> {
        match &mut self.items.get_mut(key).unwrap().kind {
            Kind::Stream(d) => d,
            Kind::Storage => fail!("not a stream"),
        }
    }
}

//===========================================================================//
// Comparing a compound file with the model.

fn rows_of<F>(entries: cfb::Entries<'_, F>) -> Vec<Row> {
    entries
        .map(|e| {
            let len = if e.is_stream() { e.len() } else { 0 };
            assert_eq!(e.is_stream(), !e.is_storage());
            (
                e.path().to_str().unwrap().to_string(),
                e.is_stream(),
                len,
                e.state_bits(),
            )
        })
        .collect()
}

fn check_tree<F: Read + Seek>(
    cf: &mut CompoundFile<F>,
    model: &Model,
    ctx: &str,
) {
    let mut want = Vec::new();
    model.preorder(&Vec::new(), &mut want);
    assert_eq!(rows_of(cf.walk()), want, "{ctx}: walk");
    check!(cf.root_entry().is_root());
    for (key, item) in model.items.iter() {
        let path = model.path_of(key);
        let lower = path.to_ascii_lowercase();
        check!(cf.exists(&path) && cf.exists(&lower), "{ctx}: {path}");
        let entry = cf.entry(&lower).unwrap();
        let entry_path = entry.path().to_str().unwrap().to_string();
        assert_eq!(entry_path.to_ascii_lowercase(), lower, "{ctx}");
        assert_eq!(entry.state_bits(), item.bits, "{ctx}: bits of {path}");
        if !key.is_empty() {
            assert_eq!(entry.name(), item.name, "{ctx}");
        }
        match &item.kind {
            Kind::Storage => {
                check!(cf.is_storage(&path) && !cf.is_stream(&path));
                let want: Vec<Row> = model
                    .children(key)
                    .iter()
                    .map(|kid| model.row(kid))
                    .collect();
                let got = rows_of(cf.read_storage(&path).unwrap());
                assert_eq!(got, want, "{ctx}: listing of {path}");
                if key.is_empty() {
                    assert_eq!(rows_of(cf.read_root_storage()), want);
                }
                let mut want = Vec::new();
                model.preorder(key, &mut want);
                let got = rows_of(cf.walk_storage(&path).unwrap());
                assert_eq!(got, want, "{ctx}: walk of {path}");
                let err = cf.open_stream(&path).err().unwrap();
                assert_eq!(err.kind(), ErrorKind::InvalidInput, "{ctx}");
            }
            Kind::Stream(data) => {
                check!(cf.is_stream(&path) && !cf.is_storage(&path));
                assert_eq!(entry.len(), data.len() as u64, "{ctx}: {path}");
                check!(entry.clsid().is_nil());
                let mut stream = cf.open_stream(&lower).unwrap();
                assert_eq!(stream.len(), data.len() as u64);
                let mut got = Vec::new();
                stream.read_to_end(&mut got).unwrap();
                check!(got == *data, "{ctx}: content of {path}");
                let err = cf.read_storage(&path).err().unwrap();
                assert_eq!(err.kind(), ErrorKind::InvalidInput, "{ctx}");
            }
        }
    }
}

/// The bytes alone must reopen, strictly and permissively, to the model.
fn check_image(image: &[u8], model: &Model, ctx: &str) {
    assert_eq!(image.len() % 512, 0, "{ctx}: whole number of sectors");
    let mut strict = CompoundFile::open_strict(Cursor::new(image.to_vec()))
        .unwrap_or_else(|e| fail!("{ctx}: strict reopen failed: {e}"));
    check_tree(&mut strict, model, &format!("{ctx} (strict)"));
    let mut permissive = CompoundFile::open(Cursor::new(image.to_vec()))
        .unwrap_or_else(|e| fail!("{ctx}: permissive reopen failed: {e}"));
    check_tree(&mut permissive, model, &format!("{ctx} (permissive)"));
}

//===========================================================================//
// Randomized histories.

const POOL: [&str; 9] = [
    "a",
    "B",
    "cc",
    "Dd",
    "e1",
    "x.y",
    "Zeta",
    "a name with thirty-one units...",
    "b2",
];

const LENS: [u64; 14] = [
    0, 1, 63, 64, 65, 128, 4095, 4096, 4097, 5000, 8192, 511, 513, 12288,
];

struct Handle {
    key: Key,
    stream: Stream<Backend>,
    pos: u64,
}

fn flip_case(s: &str) -> String {
    s.chars()
        .map(|c| {
            if c.is_ascii_lowercase() {
                c.to_ascii_uppercase()
            } else {
                c.to_ascii_lowercase()
            }
        })
        .collect()
}

fn rand_target(rng: &mut Rng, model: &Model) -> Vec<String> {
    let keys: Vec<&Key> = model.items.keys().collect();
    let base = keys[rng.below(keys.len() as u64) as usize];
    let mut comps = model.names_of(base);
    let extra = match rng.below(8) {
        0..=2 => 0,
        3..=6 => 1,
        _ => 2,
    };
    for _ in 0..extra {
        let name = match rng.below(40) {
            0 => "bad!name".to_string(),
            1 => "a name with thirty-two units.....".to_string(),
            _ => POOL[rng.below(POOL.len() as u64) as usize].to_string(),
        };
        comps.push(name);
    }
    for comp in comps.iter_mut() {
        if rng.below(5) == 0 {
            *comp = flip_case(comp);
        }
    }
    comps
}

fn fmt_path(rng: &mut Rng, comps: &[String]) -> String {
    if comps.is_empty() {
        return "/".to_string();
    }
    let joined = comps.join("/");
    match rng.below(8) {
        0 => joined,
        1 => format!("/{joined}/"),
        2 => format!("/./{joined}"),
        3 => {
            let (head, last) = comps.split_at(comps.len() - 1);
            let mut parts: Vec<&str> =
                head.iter().map(|s| s.as_str()).collect();
            parts.extend(["qq", "..", last[0].as_str()]);
            format!("/{}", parts.join("/"))
        }
        _ => format!("/{joined}"),
    }
}

fn handle_op(rng: &mut Rng, h: &mut Handle, model: &mut Model) {
    let data = model.data_mut(&h.key);
    let pos = h.pos as usize;
    match rng.below(16) {
        0..=4 => {
            let n = match rng.below(6) {
                0 => 1 + rng.below(64),
                1 => 4000 + rng.below(200),
                2 => 1 + rng.below(9000),
                _ => 1 + rng.below(700),
            } as usize;
            let bytes = rng.bytes(n);
            h.stream.write_all(&bytes).unwrap();
            if data.len() < pos + n {
                data.resize(pos + n, 0);
            }
            data[pos..pos + n].copy_from_slice(&bytes);
            h.pos += n as u64;
        }
        5..=6 => {
            let n = rng.below(6000) as usize;
            let mut got = vec![0u8; n];
            let mut filled = 0;
            while filled < n {
                let k = h.stream.read(&mut got[filled..]).unwrap();
                if k == 0 {
                    break;
                }
                filled += k;
            }
            let end = data.len().min(pos + n);
            check!(got[..filled] == data[pos.min(end)..end], "read");
            h.pos += filled as u64;
        }
        7 => {
            let avail = h.stream.fill_buf().unwrap().to_vec();
            assert_eq!(avail.is_empty(), pos >= data.len(), "fill_buf");
            check!(avail[..] == data[pos..pos + avail.len()], "fill_buf");
            let k = rng.below(avail.len() as u64 + 1) as usize;
            h.stream.consume(k);
            h.pos += k as u64;
        }
        8..=10 => {
            let len = data.len() as i64;
            let near = |rng: &mut Rng, x: i64| x + rng.below(7) as i64 - 3;
            let to = match rng.below(8) {
                0 => SeekFrom::Start(rng.below(len as u64 + 1)),
                1 => SeekFrom::Start(near(rng, len).max(0) as u64),
                2 => SeekFrom::End(-(rng.below(len as u64 + 1) as i64)),
                3 => SeekFrom::End(near(rng, -len)),
                4 => SeekFrom::End(near(rng, 0)),
                5 => SeekFrom::Current(near(rng, len - pos as i64)),
                6 => SeekFrom::Current(near(rng, -(pos as i64))),
                _ => SeekFrom::Current(rng.below(2000) as i64 - 1000),
            };
            let want: i128 = match to {
                SeekFrom::Start(p) => p as i128,
                SeekFrom::End(d) => len as i128 + d as i128,
                SeekFrom::Current(d) => pos as i128 + d as i128,
            };
            let got = h.stream.seek(to);
            if want < 0 || want > len as i128 {
                assert_eq!(got.err().unwrap().kind(), ErrorKind::InvalidInput);
            } else {
                assert_eq!(got.unwrap(), want as u64, "seek result");
                h.pos = want as u64;
            }
        }
        11..=12 => {
            let n = match rng.below(3) {
                0 => rng.below(10000),
                _ => LENS[rng.below(LENS.len() as u64) as usize],
            };
            h.stream.set_len(n).unwrap();
            data.resize(n as usize, 0);
            h.pos = h.pos.min(n);
        }
        13 => h.stream.flush().unwrap(),
        _ => {}
    }
    assert_eq!(h.stream.len(), data.len() as u64, "len()");
    assert_eq!(h.stream.stream_position().unwrap(), h.pos, "position");
}

fn pin_time() -> std::time::SystemTime {
    UNIX_EPOCH + Duration::from_secs(1_500_000_000)
}

fn make_cf(
    version: Version,
    max_buf: usize,
    chunk: usize,
) -> (CompoundFile<Backend>, Arc<Mutex<Disk>>) {
    let backend = Backend::new(chunk);
    let disk = backend.disk();
    let mut cf = match version {
        Version::V4 => OpenOptions::new()
            .max_buffer_size(max_buf)
            .create_with(backend)
            .unwrap(),
        Version::V3 => {
            // There is no way to create a version 3 file with a buffer
            // size, so create it and reopen the bytes with the option.
            drop(CompoundFile::create_with_version(version, backend).unwrap());
            let backend = Backend { disk: disk.clone(), pos: 0 };
            OpenOptions::new()
                .max_buffer_size(max_buf)
                .open_with(backend)
                .unwrap()
        }
    };
    assert_eq!(cf.version(), version);
    cf.set_created_time("/", pin_time()).unwrap();
    cf.set_modified_time("/", pin_time()).unwrap();
    (cf, disk)
}

fn expect_err<T>(result: io::Result<T>, kind: ErrorKind, ctx: &str) {
    match result {
        Ok(_) => fail!("{ctx}: expected {kind:?}, got Ok"),
        Err(e) => assert_eq!(e.kind(), kind, "{ctx}: {e}"),
    }
}

/// Runs one random history and returns the final byte image.
fn run_history(
    seed: u64,
    version: Version,
    max_buf: usize,
    chunk: usize,
    steps: usize,
) -> Vec<u8> {
    run_history_traced(seed, version, max_buf, chunk, steps).0
}

/// Also returns a hash of all calls made on the underlying file (kind,
/// position and length of each).
fn run_history_traced(
    seed: u64,
    version: Version,
    max_buf: usize,
    chunk: usize,
    steps: usize,
) -> (Vec<u8>, u64) {
    let mut trace = 0u64;
    let mut rng = Rng::new(seed);
    let (mut cf, mut disk) = make_cf(version, max_buf, chunk);
    let mut model = Model::new();
    let mut handles: Vec<Handle> = Vec::new();
    for step in 0..steps {
        let ctx = format!(
            "seed {seed} {version:?} buf {max_buf} chunk {chunk} step {step}"
        );
        let roll = rng.below(100);
        if roll < 30 {
            // A namespace operation.
            let comps = rand_target(&mut rng, &model);
            let key = key_of(&comps);
            let path = fmt_path(&mut rng, &comps);
            let op = rng.below(9);
            // Handles keep referring to their stream only while it exists
            // and is not replaced, so let go of the ones this may affect.
            if matches!(op, 3..=6) {
                handles.retain(|h| !h.key.starts_with(&key));
            }
            let before = snapshot(&disk);
            let old_keys: Vec<Key> = model.items.keys().cloned().collect();
            let ctx = format!("{ctx} op {op} on {path:?}");
            let (want, got): (Result<(), ErrorKind>, io::Result<()>) =
                match op {
                    0 => (model.create_storage(&comps), cf.create_storage(&path)),
                    1 => (
                        model.create_storage_all(&comps),
                        cf.create_storage_all(&path),
                    ),
                    2 => (model.remove_storage(&comps), cf.remove_storage(&path)),
                    3 => (
                        model.remove_storage_all(&comps),
                        cf.remove_storage_all(&path),
                    ),
                    4 | 5 => {
                        let overwrite = op == 4;
                        let want = model.create_stream(&comps, overwrite);
                        let got = if overwrite {
                            cf.create_stream(&path)
                        } else {
                            cf.create_new_stream(&path)
                        };
                        let got = got.map(|stream| {
                            assert_eq!(stream.len(), 0);
                            if handles.len() < 3 && rng.below(2) == 0 {
                                let key = key.clone();
                                handles.push(Handle { key, stream, pos: 0 });
                            }
                        });
                        (want, got)
                    }
                    6 => (model.remove_stream(&comps), cf.remove_stream(&path)),
                    7 => {
                        let bits = rng.next() as u32;
                        let want = match model.items.get_mut(&key) {
                            None => Err(ErrorKind::NotFound),
                            Some(item) => {
                                item.bits = bits;
                                Ok(())
                            }
                        };
                        (want, cf.set_state_bits(&path, bits))
                    }
                    _ => {
                        let want = model.open_stream(&comps);
                        let taken = handles.iter().any(|h| h.key == key);
                        let got = cf.open_stream(&path).map(|stream| {
                            if handles.len() < 3 && !taken {
                                let key = key.clone();
                                handles.push(Handle { key, stream, pos: 0 });
                            }
                        });
                        (want, got)
                    }
                };
            match want {
                Ok(()) => {
                    if let Err(e) = got {
                        fail!("{ctx}: unexpected error {e}");
                    }
                    // Pin the times of new storages, so that the image
                    // does not depend on the clock.
                    let new_keys: Vec<Key> = model
                        .items
                        .keys()
                        .filter(|k| !old_keys.contains(k))
                        .filter(|k| model.is_storage(k))
                        .cloned()
                        .collect();
                    for k in new_keys {
                        let p = model.path_of(&k);
                        cf.set_created_time(&p, pin_time()).unwrap();
                        cf.set_modified_time(&p, pin_time()).unwrap();
                    }
                }
                Err(kind) => {
                    expect_err(got, kind, &ctx);
                    check!(before == snapshot(&disk), "{ctx}: bytes changed");
                }
            }
        } else if roll < 85 && !handles.is_empty() {
            let i = rng.below(handles.len() as u64) as usize;
            handle_op(&mut rng, &mut handles[i], &mut model);
        } else if roll < 89 && !handles.is_empty() {
            let i = rng.below(handles.len() as u64) as usize;
            drop(handles.swap_remove(i));
        } else if roll < 97 {
            // Nothing unflushed: the live object and the bytes alone must
            // both agree with the model.
            for h in handles.iter_mut() {
                h.stream.flush().unwrap();
            }
            check_tree(&mut cf, &model, &format!("{ctx} live"));
            check_image(&snapshot(&disk), &model, &ctx);
            for h in handles.iter_mut() {
                let want = h.pos;
                assert_eq!(h.stream.stream_position().unwrap(), want);
            }
        } else {
            // Carry on with a reopened copy of the bytes, taken without
            // flushing the compound file.
            handles.clear();
            trace = trace.rotate_left(9) ^ disk.lock().unwrap().trace;
            let backend = Backend::from_bytes(snapshot(&disk), chunk);
            disk = backend.disk();
            cf = OpenOptions::new()
                .max_buffer_size(max_buf)
                .open_with(backend)
                .unwrap();
        }
    }
    handles.clear();
    check_tree(&mut cf, &model, "final live");
    let image = snapshot(&disk);
    check_image(&image, &model, &format!("seed {seed} final"));
    let inner = cf.into_inner();
    check!(image == snapshot(&inner.disk()), "into_inner changed bytes");
    trace = trace.rotate_left(9) ^ disk.lock().unwrap().trace;
    (image, trace)
}

#[test]
fn random_histories_match_model() {
    assert_eq!(POOL[7].len(), 31);
    check!(valid_name(POOL[7]));
    check!(!valid_name("a name with thirty-two units....."));
    let mut seed = 1;
    for &version in &[Version::V3, Version::V4] {
        for &max_buf in &[0usize, 4096, 1 << 20] {
            for &chunk in &[0usize, 600] {
                for _ in 0..3 {
                    run_history(seed, version, max_buf, chunk, 350);
                    seed += 1;
                }
            }
        }
    }
}

#[test]
fn same_history_same_bytes() {
    // Prints fingerprints, so that runs against two builds of the library
    // can be compared (cargo test -- --nocapture).
    for seed in 100..106 {
        for &version in &[Version::V3, Version::V4] {
            let (first, trace) =
                run_history_traced(seed, version, 2048, 0, 300);
            let (again, trace2) =
                run_history_traced(seed, version, 2048, 0, 300);
            check!(first == again, "seed {seed}: two runs differ");
            assert_eq!(trace, trace2, "seed {seed}: two runs, other calls");
            for &chunk in &[1usize, 7, 512, 1000] {
                let chunked = run_history(seed, version, 2048, chunk, 300);
                check!(first == chunked, "seed {seed}: chunk {chunk}");
            }
            println!(
                "fingerprint seed {seed} {version:?}: {} bytes, {:016x}, \
                 calls {trace:016x}",
                first.len(),
                fnv(&first)
            );
        }
    }
}

//===========================================================================//
// Write faults (C13) and faults during namespace operations (C11, C13).

fn pattern(n: usize, salt: u8) -> Vec<u8> {
    (0..n).map(|i| (i as u8).wrapping_mul(31).wrapping_add(salt) | 1).collect()
}

struct Scene {
    cf: CompoundFile<Backend>,
    disk: Arc<Mutex<Disk>>,
}

fn make_scene(version: Version, max_buf: usize, initial: usize) -> Scene {
    let (mut cf, disk) = make_cf(version, max_buf, 0);
    cf.create_storage("/st").unwrap();
    cf.create_stream("/st/small").unwrap().write_all(&pattern(200, 5)).unwrap();
    cf.create_stream("/other").unwrap().write_all(&pattern(6000, 7)).unwrap();
    let mut a = cf.create_stream("/a").unwrap();
    a.write_all(&pattern(initial, 1)).unwrap();
    a.flush().unwrap();
    drop(a);
    Scene { cf, disk }
}

/// Seeks, writes (counting what was accepted) and flushes, retrying after
/// every error.  Returns the expected content if the last flush succeeded.
fn write_and_flush(
    scene: &mut Scene,
    initial: usize,
    offset: usize,
    new: &[u8],
) -> Option<Vec<u8>> {
    let disk = scene.disk.clone();
    let mut h = scene.cf.open_stream("/a").unwrap();
    let mut want = pattern(initial, 1);
    let mut tries = 0;
    while let Err(_) = h.seek(SeekFrom::Start(offset as u64)) {
        disarm(&disk);
        tries += 1;
        check!(tries < 4, "seek keeps failing");
    }
    let mut accepted = 0;
    let mut errors = 0;
    while accepted < new.len() && errors < 4 {
        match h.write(&new[accepted..]) {
            Ok(0) => break,
            Ok(n) => accepted += n,
            Err(_) => {
                disarm(&disk);
                errors += 1;
            }
        }
    }
    if want.len() < offset + accepted {
        want.resize(offset + accepted, 0);
    }
    want[offset..offset + accepted].copy_from_slice(&new[..accepted]);
    let mut flushed = h.flush().is_ok();
    if !flushed {
        disarm(&disk);
        flushed = h.flush().is_ok();
    }
    disarm(&disk);
    assert_eq!(h.len(), want.len() as u64);
    drop(h);
    if flushed {
        Some(want)
    } else {
        None
    }
}

fn poke_after_fault(scene: &mut Scene) {
    // Whatever happened before, later calls return Ok or Err.
    let cf = &mut scene.cf;
    let _ = cf.walk().count();
    let _ = cf.create_storage("/st/later");
    if let Ok(mut s) = cf.create_stream("/later") {
        let _ = s.write_all(&pattern(5000, 9));
        let _ = s.flush();
    }
    for path in ["/other", "/st/small", "/a"] {
        if let Ok(mut s) = cf.open_stream(path) {
            let mut sink = Vec::new();
            let _ = s.read_to_end(&mut sink);
            let _ = s.set_len(4097);
            let _ = s.set_len(10);
        }
    }
    let _ = cf.remove_stream("/other");
    let _ = cf.remove_storage_all("/st");
    let _ = cf.flush();
    let _ = cf.walk().count();
}

#[test]
fn write_faults_then_retry() {
    // (initial length, write offset, write length)
    let cases: [(usize, usize, usize); 7] = [
        (0, 0, 100),
        (100, 50, 200),
        (4000, 3900, 500),
        (5000, 100, 6000),
        (0, 0, 5000),
        (4095, 4095, 1),
        (3000, 0, 9000),
    ];
    let mut retried_ok = 0;
    let mut retried_err = 0;
    for &version in &[Version::V3, Version::V4] {
        for &max_buf in &[0usize, 1 << 20] {
            for &(initial, offset, len) in cases.iter() {
                let new = pattern(len, 77);
                let mut scene = make_scene(version, max_buf, initial);
                let start = ops(&scene.disk);
                let want = write_and_flush(&mut scene, initial, offset, &new);
                let total = ops(&scene.disk) - start;
                check!(want.is_some());
                for k in 0..total {
                    for &count in &[1u64, 2] {
                        let mut scene = make_scene(version, max_buf, initial);
                        arm(&scene.disk, k, count);
                        let want =
                            write_and_flush(&mut scene, initial, offset, &new);
                        match want {
                            Some(want) => {
                                retried_ok += 1;
                                let mut fresh =
                                    scene.cf.open_stream("/a").unwrap();
                                let mut got = Vec::new();
                                fresh.read_to_end(&mut got).unwrap();
                                check!(
                                    got == want,
                                    "{version:?} buf {max_buf} case \
                                     {initial}/{offset}/{len} fault {k}x{count}: \
                                     flush said Ok but a fresh handle reads \
                                     other bytes"
                                );
                            }
                            None => retried_err += 1,
                        }
                        poke_after_fault(&mut scene);
                    }
                }
            }
        }
    }
    println!("write faults: {retried_ok} ended in Ok, {retried_err} in Err");
    check!(retried_ok > 0);
}

#[test]
fn faults_during_namespace_operations() {
    type Op = fn(&mut CompoundFile<Backend>) -> io::Result<()>;
    let operations: [Op; 8] = [
        |cf| cf.create_storage("/st/new"),
        |cf| cf.create_storage_all("/p/q/r"),
        |cf| {
            let mut s = cf.create_stream("/fresh")?;
            s.write_all(&pattern(5000, 3))?;
            s.flush()
        },
        |cf| cf.create_stream("/other").map(|_| ()),
        |cf| cf.remove_stream("/other"),
        |cf| cf.remove_storage_all("/"),
        |cf| {
            let mut s = cf.open_stream("/st/small")?;
            s.set_len(5000)?;
            s.set_len(100)
        },
        |cf| {
            let mut s = cf.open_stream("/other")?;
            s.seek(SeekFrom::End(0))?;
            s.write_all(&pattern(3000, 4))?;
            s.set_len(64)
        },
    ];
    for &version in &[Version::V3, Version::V4] {
        for (i, op) in operations.iter().enumerate() {
            let mut scene = make_scene(version, 0, 300);
            let start = ops(&scene.disk);
            op(&mut scene.cf).unwrap();
            let total = ops(&scene.disk) - start;
            check!(total > 0, "operation {i} does no I/O");
            for k in 0..total {
                let mut scene = make_scene(version, 0, 300);
                arm(&scene.disk, k, 1);
                let first = op(&mut scene.cf);
                disarm(&scene.disk);
                check!(first.is_err(), "op {i} fault {k} was swallowed");
                let _ = op(&mut scene.cf);
                poke_after_fault(&mut scene);
            }
        }
    }
}

//===========================================================================//
// Read faults on a file that is only read (C12).

#[test]
fn read_faults_never_give_wrong_data() {
    for &version in &[Version::V3, Version::V4] {
        let mut scene = make_scene(version, 0, 9000);
        scene.cf.create_stream("/st/empty").unwrap();
        let truth: Vec<(String, Vec<u8>)> = vec![
            ("/a".into(), pattern(9000, 1)),
            ("/other".into(), pattern(6000, 7)),
            ("/st/small".into(), pattern(200, 5)),
            ("/st/empty".into(), Vec::new()),
        ];
        let image = snapshot(&scene.disk);
        let walk_want: Vec<Row> = {
            let cf = CompoundFile::open(Cursor::new(image.clone())).unwrap();
            rows_of(cf.walk())
        };
        let run = |skip: Option<(u64, u64)>, max_buf: usize| -> u64 {
            let backend = Backend::from_bytes(image.clone(), 0);
            let disk = backend.disk();
            disk.lock().unwrap().fail_reads_only = true;
            if let Some((skip, count)) = skip {
                arm(&disk, skip, count);
            }
            let opened = OpenOptions::new()
                .max_buffer_size(max_buf)
                .open_with(backend);
            let mut cf = match opened {
                Ok(cf) => cf,
                Err(_) => return ops(&disk),
            };
            assert_eq!(rows_of(cf.walk()), walk_want);
            for (path, want) in truth.iter() {
                assert_eq!(cf.entry(path).unwrap().len(), want.len() as u64);
                let mut s = cf.open_stream(path).unwrap();
                let mut got = Vec::new();
                let mut failures = 0;
                loop {
                    let mut buf = [0u8; 700];
                    match s.read(&mut buf) {
                        Ok(0) => break,
                        Ok(n) => got.extend_from_slice(&buf[..n]),
                        Err(_) => {
                            // The same handle is used again: from where it
                            // is, and also from the start.
                            failures += 1;
                            check!(failures < 50, "read keeps failing");
                            if failures % 2 == 0 {
                                if s.seek(SeekFrom::Start(0)).is_ok() {
                                    got.clear();
                                }
                            } else if let Ok(p) = s.stream_position() {
                                assert_eq!(p, got.len() as u64);
                            }
                        }
                    }
                }
                check!(got == *want, "{path}: wrong data after read faults");
            }
            ops(&disk)
        };
        for &max_buf in &[0usize, 1 << 20] {
            let total = run(None, max_buf);
            for k in 0..total {
                run(Some((k, 1)), max_buf);
                run(Some((k, 3)), max_buf);
            }
        }
    }
}

//===========================================================================//
// Concurrent readers while the main thread does stream I/O (C14).

fn with_watchdog<F: FnOnce() + Send + 'static>(seconds: u64, f: F) {
    let (tx, rx) = mpsc::channel();
    let worker = thread::spawn(move || {
        f();
        let _ = tx.send(());
    });
    match rx.recv_timeout(Duration::from_secs(seconds)) {
        Ok(()) => worker.join().unwrap(),
        Err(mpsc::RecvTimeoutError::Disconnected) => {
            worker.join().unwrap();
            fail!("worker ended without reporting");
        }
        Err(mpsc::RecvTimeoutError::Timeout) => {
            fail!("calls did not complete: deadlock or hang")
        }
    }
}

#[test]
fn compound_file_is_send_and_sync() {
    fn check<T: Send + Sync>() {}
    check::<CompoundFile<std::fs::File>>();
    check::<CompoundFile<Cursor<Vec<u8>>>>();
}

#[test]
fn readers_on_other_threads_during_stream_io() {
    for &version in &[Version::V3, Version::V4] {
        for &max_buf in &[0usize, 1 << 20] {
            with_watchdog(120, move || concurrent_scenario(version, max_buf));
        }
    }
}

fn concurrent_scenario(version: Version, max_buf: usize) {
    let (mut cf, disk) = make_cf(version, max_buf, 0);
    // With the large buffer a stream's recorded length changes only when a
    // handle is flushed or resized, so the lengths a reader may see are
    // known exactly; with the small one write_all consists of several
    // stream operations and the length passes through values in between.
    let exact = max_buf != 0;
    cf.create_storage("/dir").unwrap();
    cf.create_storage("/dir/sub").unwrap();
    cf.create_stream("/s1").unwrap().write_all(&pattern(100, 1)).unwrap();
    cf.create_stream("/s2").unwrap().write_all(&pattern(6000, 2)).unwrap();
    cf.create_stream("/dir/s3").unwrap();
    let mut h1 = cf.open_stream("/s1").unwrap();
    let mut h2 = cf.open_stream("/s2").unwrap();
    let mut h3 = cf.open_stream("/dir/s3").unwrap();
    let mut m1 = pattern(100, 1);
    let mut m2 = pattern(6000, 2);
    let mut m3: Vec<u8> = Vec::new();
    let paths = ["/", "/s1", "/s2", "/dir", "/dir/s3", "/dir/sub"];
    let allowed = |path: &str, len: u64| -> bool {
        match path {
            "/s1" => [0, 64, 100, 5000].contains(&len),
            "/s2" => {
                len >= 6000 && len <= 11000 && (len % 1000 == 0 || !exact)
            }
            "/dir/s3" => [0, 3000, 6000].contains(&len) || !exact && len < 6000,
            _ => true,
        }
    };
    let stop = AtomicBool::new(false);
    let calls = AtomicUsize::new(0);
    {
        let cf = &cf;
        let (stop, calls, allowed) = (&stop, &calls, &allowed);
        thread::scope(|scope| {
            for t in 0..4u64 {
                scope.spawn(move || {
                    let mut rng = Rng::new(1000 + t);
                    while !stop.load(Ordering::Relaxed) {
                        match rng.below(9) {
                            0 => {
                                let mut got = Vec::new();
                                for e in cf.walk() {
                                    if e.is_stream() {
                                        let p = e.path().to_str().unwrap();
                                        check!(allowed(p, e.len()), "{p}");
                                    }
                                    got.push(e.path().to_path_buf());
                                    if rng.below(3) == 0 {
                                        thread::yield_now();
                                    }
                                }
                                let want: Vec<_> = ["/", "/s1", "/s2", "/dir",
                                    "/dir/s3", "/dir/sub"]
                                    .iter()
                                    .map(std::path::PathBuf::from)
                                    .collect();
                                assert_eq!(got, want);
                            }
                            1 => {
                                let names: Vec<String> = cf
                                    .read_storage("/dir")
                                    .unwrap()
                                    .map(|e| e.name().to_string())
                                    .collect();
                                assert_eq!(names, ["s3", "sub"]);
                            }
                            2 => {
                                let n = cf.read_root_storage().count();
                                assert_eq!(n, 3);
                            }
                            3 => {
                                let p = paths[rng.below(6) as usize];
                                let e = cf.entry(p).unwrap();
                                check!(allowed(p, e.len()) || !e.is_stream());
                            }
                            4 => check!(cf.exists("/dir/s3")),
                            5 => check!(cf.is_stream("/S1")),
                            6 => check!(cf.is_storage("/dir/sub")),
                            7 => check!(cf.root_entry().is_root()),
                            _ => {
                                check!(cf.entry("/nope").is_err());
                                check!(!cf.exists("/dir/nope"));
                                let n = cf.walk_storage("/dir").unwrap().count();
                                assert_eq!(n, 3);
                            }
                        }
                        calls.fetch_add(1, Ordering::Relaxed);
                    }
                });
            }
            // The main thread owns the handles and does the stream I/O.
            let mut rng = Rng::new(7);
            for round in 0..300usize {
                let n1 = [0u64, 64, 100, 5000][rng.below(4) as usize];
                h1.set_len(n1).unwrap();
                m1.resize(n1 as usize, 0);
                if n1 > 0 {
                    let at = rng.below(n1) as usize;
                    h1.seek(SeekFrom::Start(at as u64)).unwrap();
                    let bytes = rng.bytes((n1 as usize - at).min(40));
                    h1.write_all(&bytes).unwrap();
                    m1[at..at + bytes.len()].copy_from_slice(&bytes);
                    h1.flush().unwrap();
                }
                if m2.len() >= 11000 {
                    h2.set_len(6000).unwrap();
                    m2.truncate(6000);
                }
                h2.seek(SeekFrom::End(0)).unwrap();
                let bytes = rng.bytes(1000);
                h2.write_all(&bytes).unwrap();
                m2.extend_from_slice(&bytes);
                h2.flush().unwrap();
                match round % 3 {
                    0 => {
                        h3.set_len(0).unwrap();
                        m3.clear();
                    }
                    _ => {
                        h3.seek(SeekFrom::End(0)).unwrap();
                        let bytes = rng.bytes(3000);
                        h3.write_all(&bytes).unwrap();
                        m3.extend_from_slice(&bytes);
                        h3.flush().unwrap();
                    }
                }
                let mut back = Vec::new();
                h2.seek(SeekFrom::Start(0)).unwrap();
                h2.read_to_end(&mut back).unwrap();
                check!(back == m2, "round {round}: s2 read back");
            }
            stop.store(true, Ordering::Relaxed);
        });
    }
    check!(calls.load(Ordering::Relaxed) > 0);
    drop((h1, h2, h3));
    let mut model = Model::new();
    model.create_storage(&["dir".to_string()]).unwrap();
    model.create_storage(&["dir".to_string(), "sub".to_string()]).unwrap();
    for (comps, data) in
        [(vec!["s1"], m1), (vec!["s2"], m2), (vec!["dir", "s3"], m3)]
    {
        let comps: Vec<String> = comps.iter().map(|s| s.to_string()).collect();
        model.create_stream(&comps, false).unwrap();
        *model.data_mut(&key_of(&comps)) = data;
    }
    check_tree(&mut cf, &model, "after concurrency");
    check_image(&snapshot(&disk), &model, "after concurrency");
}

#[test]
fn iterators_and_handles_interleave_on_one_thread() {
    // An iterator must not keep the shared state locked between steps, and
    // a handle must not keep it locked between calls.
    with_watchdog(120, || {
        for &version in &[Version::V3, Version::V4] {
            let (mut cf, disk) = make_cf(version, 0, 0);
            let mut model = Model::new();
            for name in ["s1", "s2", "dir"] {
                let comps = vec![name.to_string()];
                if name == "dir" {
                    cf.create_storage("/dir").unwrap();
                    model.create_storage(&comps).unwrap();
                } else {
                    cf.create_stream(format!("/{name}")).unwrap();
                    model.create_stream(&comps, false).unwrap();
                }
            }
            let mut h1 = cf.open_stream("/s1").unwrap();
            let mut h2 = cf.open_stream("/s2").unwrap();
            let mut rng = Rng::new(5);
            for round in 0..40 {
                let mut walk = cf.walk();
                let mut list = cf.read_root_storage();
                let mut seen = Vec::new();
                loop {
                    let n = 1 + rng.below(3000) as usize;
                    let bytes = rng.bytes(n);
                    h1.write_all(&bytes).unwrap();
                    model.data_mut(&vec!["S1".into()]).extend(&bytes);
                    if rng.below(2) == 0 {
                        h1.flush().unwrap();
                    }
                    let n = LENS[rng.below(LENS.len() as u64) as usize];
                    h2.set_len(n).unwrap();
                    model.data_mut(&vec!["S2".into()]).resize(n as usize, 0);
                    let _ = list.next();
                    let mut sink = [0u8; 100];
                    h2.seek(SeekFrom::Start(0)).unwrap();
                    let _ = h2.read(&mut sink).unwrap();
                    match walk.next() {
                        Some(e) => seen.push(e.path().to_path_buf()),
                        None => break,
                    }
                }
                let want: Vec<std::path::PathBuf> =
                    ["/", "/s1", "/s2", "/dir"].iter().map(Into::into).collect();
                assert_eq!(seen, want, "round {round}");
            }
            h1.flush().unwrap();
            drop((h1, h2));
            check_tree(&mut cf, &model, "interleaved");
            check_image(&snapshot(&disk), &model, "interleaved");
        }
    });
}

#[test]
fn handles_outliving_the_compound_file() {
    // A handle whose compound file is gone reports errors; it neither
    // panics nor hangs, with or without buffered changes.
    with_watchdog(60, || {
        for &version in &[Version::V3, Version::V4] {
            let (mut cf, disk) = make_cf(version, 0, 0);
            cf.create_stream("/a").unwrap().write_all(&pattern(9000, 1)).unwrap();
            let mut clean = cf.open_stream("/a").unwrap();
            let mut dirty = cf.open_stream("/a").unwrap();
            let mut head = [0u8; 10];
            clean.read_exact(&mut head).unwrap();
            dirty.write_all(b"changed").unwrap();
            drop(cf);
            let image = snapshot(&disk);
            check!(dirty.flush().is_err());
            check!(dirty.flush().is_err());
            check!(dirty.set_len(5).is_err());
            check!(dirty.seek(SeekFrom::Start(8000)).is_err());
            assert_eq!(dirty.stream_position().unwrap(), 7);
            assert_eq!(clean.seek(SeekFrom::Start(8000)).unwrap(), 8000);
            check!(clean.read(&mut head).is_err());
            assert_eq!(clean.stream_position().unwrap(), 8000);
            check!(clean.flush().is_err());
            check!(clean.set_len(9000).is_ok());
            check!(clean.set_len(5).is_err());
            assert_eq!(clean.len(), 9000);
            drop((clean, dirty));
            check!(image == snapshot(&disk));
        }
    });
}

//===========================================================================//
// Mutating damaged files that permissive open accepts (C11).

/// Applies one of three batches of mutating calls and returns a hash of
/// what the calls returned.
fn mutate(cf: &mut CompoundFile<Backend>, variant: u32) -> u64 {
    fn note<T>(acc: &mut u64, result: &io::Result<T>) {
        let code = match result {
            Ok(_) => 1,
            Err(e) => 2 + e.kind() as u64,
        };
        *acc = (*acc ^ code).wrapping_mul(0x100_0000_01b3);
    }
    let mut acc = variant as u64;
    let entries: Vec<cfb::Entry> = cf.walk().take(2000).collect();
    match variant {
        0 => note(&mut acc, &cf.remove_storage_all("/")),
        1 => {
            for e in entries.iter().filter(|e| e.is_stream()) {
                if let Ok(mut s) = cf.open_stream(e.path()) {
                    let mut sink = vec![0u8; 5000];
                    note(&mut acc, &s.read(&mut sink));
                    note(&mut acc, &s.set_len(e.len() / 2 + 4097));
                    note(&mut acc, &s.write_all(&pattern(300, 1)));
                    note(&mut acc, &s.flush());
                    note(&mut acc, &s.set_len(3));
                }
            }
        }
        _ => {
            note(&mut acc, &cf.create_storage_all("/n1/n2/n3"));
            for e in entries.iter().filter(|e| e.is_storage()) {
                let p = e.path().join("fresh stream");
                let made = cf.create_stream(&p);
                note(&mut acc, &made);
                if let Ok(mut s) = made {
                    note(&mut acc, &s.write_all(&pattern(5000, 2)));
                    note(&mut acc, &s.flush());
                }
                note(&mut acc, &cf.set_state_bits(e.path(), 7));
                note(&mut acc, &cf.remove_storage(e.path()));
            }
            for e in entries.iter().filter(|e| e.is_stream()) {
                note(&mut acc, &cf.create_stream(e.path()));
                note(&mut acc, &cf.remove_stream(e.path()));
            }
        }
    }
    note(&mut acc, &cf.flush());
    acc ^ cf.walk().take(2000).count() as u64
}

#[test]
fn mutating_damaged_files_returns_ok_or_err() {
    let mut files = Vec::new();
    for dir in ["tests/panics_fuzzed", "tests/infinite_loops_fuzzed"] {
        if let Ok(listing) = std::fs::read_dir(dir) {
            for entry in listing {
                files.push(entry.unwrap().path());
            }
        }
    }
    files.sort();
    with_watchdog(240, move || {
        let mut accepted = 0;
        let mut outcome = 0u64;
        for file in files {
            let data = std::fs::read(&file).unwrap();
            for variant in 0..3 {
                let backend = Backend::from_bytes(data.clone(), 0);
                let disk = backend.disk();
                let mut cf = match CompoundFile::open(backend) {
                    Ok(cf) => cf,
                    Err(_) => break,
                };
                accepted += 1;
                outcome = outcome.rotate_left(5) ^ mutate(&mut cf, variant);
                // New storages are stamped with the current time.
                if variant != 2 {
                    outcome ^= fnv(&snapshot(&disk));
                }
            }
        }
        println!(
            "fingerprint corpus: {accepted} accepted and mutated, \
             outcome {outcome:016x}"
        );
    });
}

#[test]
fn mutating_corrupted_images_returns_ok_or_err() {
    // Valid images with a few bytes of the header, FAT, directory or
    // MiniFAT overwritten; whatever permissive open accepts is mutated.
    with_watchdog(600, || {
        let mut rng = Rng::new(99);
        let mut accepted = 0;
        let mut outcome = 0u64;
        for &version in &[Version::V3, Version::V4] {
            let mut scene = make_scene(version, 0, 5000);
            scene.cf.create_storage("/st/deep").unwrap();
            for path in ["/st", "/st/deep"] {
                scene.cf.set_created_time(path, pin_time()).unwrap();
                scene.cf.set_modified_time(path, pin_time()).unwrap();
            }
            scene
                .cf
                .create_stream("/st/deep/x")
                .unwrap()
                .write_all(&pattern(70, 3))
                .unwrap();
            let image = snapshot(&scene.disk);
            let sector = version.sector_len();
            for _ in 0..1500 {
                let mut data = image.clone();
                for _ in 0..(1 + rng.below(4)) {
                    // Mostly the first few sectors, where the structures are.
                    let limit = if rng.below(4) == 0 {
                        data.len()
                    } else {
                        (4 * sector).min(data.len())
                    };
                    let at = rng.below(limit as u64) as usize;
                    data[at] = match rng.below(4) {
                        0 => 0,
                        1 => 0xff,
                        2 => data[at] ^ (1 << rng.below(8)),
                        _ => rng.next() as u8,
                    };
                }
                for variant in 0..3 {
                    let backend = Backend::from_bytes(data.clone(), 0);
                    let disk = backend.disk();
                    let mut cf = match CompoundFile::open(backend) {
                        Ok(cf) => cf,
                        Err(_) => break,
                    };
                    accepted += 1;
                    outcome =
                        outcome.rotate_left(5) ^ mutate(&mut cf, variant);
                    // New storages are stamped with the current time.
                    if variant != 2 {
                        outcome ^= fnv(&snapshot(&disk));
                    }
                }
            }
        }
        println!(
            "fingerprint corrupted: {accepted} accepted and mutated, \
             outcome {outcome:016x}"
        );
        check!(accepted > 100);
    });
}

//===========================================================================//
// Released space is reused (C15).

#[test]
fn net_zero_cycles_do_not_grow_the_file() {
    for &version in &[Version::V3, Version::V4] {
        for &size in &[100usize, 4095, 4096, 20000] {
            let (mut cf, disk) = make_cf(version, 0, 0);
            cf.create_storage("/keep").unwrap();
            let mut sizes = Vec::new();
            for round in 0..6 {
                cf.create_storage("/keep/tmp").unwrap();
                let mut s = cf.create_stream("/keep/tmp/s").unwrap();
                s.write_all(&pattern(size, round)).unwrap();
                drop(s);
                let mut s = cf.create_stream("/keep/tmp/s").unwrap();
                s.write_all(&pattern(size / 2, round)).unwrap();
                s.set_len(size as u64).unwrap();
                drop(s);
                cf.remove_storage_all("/keep/tmp").unwrap();
                sizes.push(snapshot(&disk).len());
            }
            check!(
                sizes[1..].iter().all(|&n| n == sizes[1]),
                "{version:?} size {size}: file sizes {sizes:?}"
            );
        }
    }
}
