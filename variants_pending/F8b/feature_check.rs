//! Behavioural checks for the "context on I/O errors" change.  Everything here
//! goes through the public API only and holds for the library before and after
//! the change: error kinds that come up from the underlying file are reported
//! unchanged, failed calls never deadlock or panic, and the usual guarantees
//! (model equivalence, write-through persistence, stream handles as byte
//! arrays, durable flush, faults never turning into wrong data) still hold.

use cfb::{CompoundFile, OpenOptions, Stream, Version};
use std::collections::BTreeMap;
use std::io::{self, Cursor, ErrorKind, Read, Seek, SeekFrom, Write};
use std::sync::mpsc;
use std::sync::{Arc, Mutex};
use std::time::{Duration, SystemTime, UNIX_EPOCH};

//===========================================================================//
// A small deterministic PRNG.

#[derive(Clone)]
struct Rng(u64);

impl Rng {
    fn new(seed: u64) -> Rng {
        Rng(seed.wrapping_mul(0x9E37_79B9_7F4A_7C15) | 1)
    }
    fn next(&mut self) -> u64 {
        self.0 ^= self.0 >> 12;
        self.0 ^= self.0 << 25;
        self.0 ^= self.0 >> 27;
        self.0.wrapping_mul(0x2545_F491_4F6C_DD1D)
    }
    fn below(&mut self, n: u64) -> u64 {
        (self.next() >> 11) % n
    }
    fn pick<T: Copy>(&mut self, items: &[T]) -> T {
        items[self.below(items.len() as u64) as usize]
    }
    fn bytes(&mut self, n: usize) -> Vec<u8> {
        (0..n).map(|_| (self.next() >> 32) as u8 | 1).collect()
    }
}

//===========================================================================//
// An in-memory file whose bytes can be looked at from outside at any time, and
// whose calls can be made to fail, to be interrupted or to transfer less than
// asked for.

const RD: u8 = 1;
const WR: u8 = 2;
const SK: u8 = 4;
const FL: u8 = 8;
const ALL: u8 = RD | WR | SK | FL;
const MSG: &str = "injected fault";

struct CtlState {
    mask: u8,
    count: u64,
    fail_at: Option<u64>,
    kind: ErrorKind,
    interrupt_at: Option<u64>,
    fail_per_mille: u64,
    chop: bool,
    fired: u64,
    rng: Rng,
}

#[derive(Clone)]
struct Ctl(Arc<Mutex<CtlState>>);

impl Ctl {
    fn new() -> Ctl {
        Ctl(Arc::new(Mutex::new(CtlState {
            mask: ALL,
            count: 0,
            fail_at: None,
            kind: ErrorKind::Other,
            interrupt_at: None,
            fail_per_mille: 0,
            chop: false,
            fired: 0,
            rng: Rng::new(99),
        })))
    }
    fn with<T>(&self, f: impl FnOnce(&mut CtlState) -> T) -> T {
        f(&mut self.0.lock().unwrap())
    }
    fn count(&self) -> u64 {
        self.with(|c| c.count)
    }
    fn fired(&self) -> u64 {
        self.with(|c| c.fired)
    }
    /// Makes the `index`-th call from now (among those in `mask`) fail.
    fn arm(&self, mask: u8, index: u64, kind: ErrorKind) {
        self.with(|c| {
            c.mask = mask;
            c.count = 0;
            c.fired = 0;
            c.fail_at = Some(index);
            c.kind = kind;
        })
    }
    fn disarm(&self) {
        self.with(|c| {
            c.fail_at = None;
            c.interrupt_at = None;
            c.fail_per_mille = 0;
        })
    }
}

struct SharedFile {
    data: Arc<Mutex<Vec<u8>>>,
    pos: u64,
    ctl: Ctl,
}

impl SharedFile {
    fn new(bytes: Vec<u8>) -> SharedFile {
        SharedFile {
            data: Arc::new(Mutex::new(bytes)),
            pos: 0,
            ctl: Ctl::new(),
        }
    }
    fn snapshot(&self) -> Vec<u8> {
        self.data.lock().unwrap().clone()
    }
    /// Decides what happens to one call: an error, or the number of bytes
    /// that it may transfer at most.
    fn gate(&mut self, op: u8, len: usize) -> io::Result<usize> {
        self.ctl.with(|c| {
            if c.mask & op != 0 {
                let index = c.count;
                c.count += 1;
                if c.fail_at == Some(index) {
                    c.fail_at = None;
                    c.fired += 1;
                    return Err(io::Error::new(c.kind, MSG));
                }
                if c.interrupt_at == Some(index) && op & (RD | WR) != 0 {
                    c.interrupt_at = None;
                    c.fired += 1;
                    return Err(ErrorKind::Interrupted.into());
                }
                if c.fail_per_mille > 0 && c.rng.below(1000) < c.fail_per_mille
                {
                    c.fired += 1;
                    return Err(io::Error::new(c.kind, MSG));
                }
            }
            if c.chop && op & (RD | WR) != 0 && len > 0 {
                match c.rng.below(4) {
                    0 => return Err(ErrorKind::Interrupted.into()),
                    1 => return Ok(1 + c.rng.below(len as u64) as usize),
                    _ => {}
                }
            }
            Ok(len)
        })
    }
}

impl Read for SharedFile {
    fn read(&mut self, buf: &mut [u8]) -> io::Result<usize> {
        let max = self.gate(RD, buf.len())?;
        let data = self.data.lock().unwrap();
        let start = (self.pos as usize).min(data.len());
        let n = max.min(data.len() - start);
        buf[..n].copy_from_slice(&data[start..start + n]);
        self.pos += n as u64;
        Ok(n)
    }
}

impl Write for SharedFile {
    fn write(&mut self, buf: &[u8]) -> io::Result<usize> {
        let n = self.gate(WR, buf.len())?;
        let mut data = self.data.lock().unwrap();
        let start = self.pos as usize;
        if data.len() < start + n {
            data.resize(start + n, 0);
        }
        data[start..start + n].copy_from_slice(&buf[..n]);
        self.pos += n as u64;
        Ok(n)
    }
    fn flush(&mut self) -> io::Result<()> {
        self.gate(FL, 0).map(|_| ())
    }
}

impl Seek for SharedFile {
    fn seek(&mut self, pos: SeekFrom) -> io::Result<u64> {
        self.gate(SK, 0)?;
        let len = self.data.lock().unwrap().len() as i128;
        let target = match pos {
            SeekFrom::Start(n) => n as i128,
            SeekFrom::End(d) => len + d as i128,
            SeekFrom::Current(d) => self.pos as i128 + d as i128,
        };
        if target < 0 || target > u64::MAX as i128 {
            return Err(io::Error::new(ErrorKind::InvalidInput, "bad seek"));
        }
        self.pos = target as u64;
        Ok(self.pos)
    }
}

/// Runs a test body in its own thread and fails, instead of hanging forever,
/// if the body does not come back.
fn with_watchdog(f: impl FnOnce() + Send + 'static) {
    let (tx, rx) = mpsc::channel();
    let handle = std::thread::spawn(move || {
        f();
        let _ = tx.send(());
    });
    match rx.recv_timeout(Duration::from_secs(300)) {
        Ok(()) => handle.join().unwrap(),
        Err(mpsc::RecvTimeoutError::Disconnected) => {
            std::panic::resume_unwind(handle.join().unwrap_err())
        }
        Err(mpsc::RecvTimeoutError::Timeout) => {
            panic!("test body did not finish: deadlock or endless loop")
        }
    }
}

//===========================================================================//
// The abstract model: paths mapped to storages or byte vectors.

#[derive(Clone, Debug, PartialEq)]
enum Node {
    Storage,
    Stream(Vec<u8>),
}

type Model = BTreeMap<String, Node>;

fn parent_of(path: &str) -> &str {
    let cut = path.rfind('/').unwrap();
    if cut == 0 {
        "/"
    } else {
        &path[..cut]
    }
}

fn is_storage(model: &Model, path: &str) -> bool {
    path == "/" || model.get(path) == Some(&Node::Storage)
}

fn has_children(model: &Model, path: &str) -> bool {
    let prefix = format!("{}/", path);
    model.keys().any(|k| k.starts_with(&prefix))
}

/// What a compound file exposes, in the shape of the model.
fn contents<F: Read + Seek>(comp: &mut CompoundFile<F>) -> Model {
    let entries: Vec<_> = comp.walk().collect();
    let mut found = Model::new();
    for entry in entries {
        if entry.is_root() {
            continue;
        }
        let path = entry.path().to_str().unwrap().to_string();
        if entry.is_stream() {
            let mut stream = comp.open_stream(&path).unwrap();
            assert_eq!(stream.len(), entry.len(), "{}", path);
            let mut data = Vec::new();
            stream.read_to_end(&mut data).unwrap();
            assert_eq!(data.len() as u64, entry.len(), "{}", path);
            found.insert(path, Node::Stream(data));
        } else {
            found.insert(path, Node::Storage);
        }
    }
    found
}

/// The bytes alone must reopen, strictly and permissively, to the model.
fn check_image(bytes: &[u8], model: &Model, what: &str) {
    for strict in [false, true] {
        let cursor = Cursor::new(bytes.to_vec());
        let opened = if strict {
            CompoundFile::open_strict(cursor)
        } else {
            CompoundFile::open(cursor)
        };
        let mut comp = match opened {
            Ok(comp) => comp,
            Err(e) => panic!("{}: reopen (strict={}): {}", what, strict, e),
        };
        let found = contents(&mut comp);
        assert!(
            &found == model,
            "{}: image differs (strict={})",
            what,
            strict
        );
    }
}

//===========================================================================//
// Randomized histories against the model (C01, C02, C06, C07, C08, C10, C18).

const STORAGES: [&str; 3] = ["/s0", "/s1", "/s0/t0"];
const PARENTS: [&str; 4] = ["", "/s0", "/s1", "/s0/t0"];
const LEAVES: [&str; 4] = ["a", "B", "c", "d"];
const SIZES: [usize; 12] =
    [0, 1, 7, 63, 64, 65, 500, 1024, 4095, 4096, 4097, 9000];

struct Handle {
    path: String,
    stream: Stream<SharedFile>,
    pos: u64,
}

fn stream_data<'a>(model: &'a mut Model, path: &str) -> &'a mut Vec<u8> {
    match model.get_mut(path) {
        Some(Node::Stream(data)) => data,
        other => panic!("{} is not a stream in the model: {:?}", path, other),
    }
}

fn expect_kind<T>(result: io::Result<T>, kind: ErrorKind, what: &str) {
    match result {
        Ok(_) => panic!("{}: expected {:?}, got Ok", what, kind),
        Err(e) => assert_eq!(e.kind(), kind, "{}: {}", what, e),
    }
}

fn pinned_time() -> SystemTime {
    UNIX_EPOCH + Duration::from_secs(1_500_000_000)
}

fn handle_op(rng: &mut Rng, handle: &mut Handle, model: &mut Model) {
    let data = stream_data(model, &handle.path);
    let stream = &mut handle.stream;
    let what = handle.path.clone();
    match rng.below(10) {
        0..=3 => {
            let size = rng.pick(&SIZES);
            let chunk = rng.bytes(size);
            // How much one call takes depends on the buffer, so go on until
            // all is written; every single call is checked.
            let mut done = 0;
            while done < chunk.len() || chunk.is_empty() {
                let n = stream.write(&chunk[done..]).unwrap();
                assert!(n <= chunk.len() - done);
                assert!(n > 0 || chunk.is_empty());
                let start = handle.pos as usize;
                if data.len() < start + n {
                    data.resize(start + n, 0);
                }
                data[start..start + n].copy_from_slice(&chunk[done..done + n]);
                handle.pos += n as u64;
                assert_eq!(stream.stream_position().unwrap(), handle.pos);
                assert_eq!(stream.len(), data.len() as u64);
                done += n;
                if chunk.is_empty() {
                    break;
                }
            }
        }
        4..=5 => {
            let mut buf = vec![0u8; rng.pick(&SIZES)];
            let mut done = 0;
            loop {
                let n = stream.read(&mut buf[done..]).unwrap();
                let start = handle.pos as usize;
                let rest = data.len() - start;
                assert!(
                    n <= rest && (n > 0 || rest == 0 || done == buf.len())
                );
                assert_eq!(
                    &buf[done..done + n],
                    &data[start..start + n],
                    "read {}",
                    what
                );
                handle.pos += n as u64;
                done += n;
                if n == 0 {
                    break;
                }
            }
        }
        6..=7 => {
            let len = data.len() as i64;
            let pos = handle.pos as i64;
            let wild = rng.below(6) == 0;
            let (seek, target) = match rng.below(3) {
                0 => {
                    let t = rng.below(len as u64 + if wild { 50 } else { 1 });
                    (SeekFrom::Start(t), t as i64)
                }
                1 => {
                    let d = rng.below(len as u64 + 1) as i64
                        - if wild { 20 } else { 0 };
                    (SeekFrom::End(-d), len - d)
                }
                _ => {
                    let t = rng.below(len as u64 + if wild { 50 } else { 1 });
                    (SeekFrom::Current(t as i64 - pos), t as i64)
                }
            };
            if target < 0 || target > len {
                expect_kind(
                    stream.seek(seek),
                    ErrorKind::InvalidInput,
                    "seek",
                );
            } else {
                assert_eq!(stream.seek(seek).unwrap(), target as u64);
                handle.pos = target as u64;
            }
            assert_eq!(stream.stream_position().unwrap(), handle.pos);
        }
        8 => {
            let old = data.len();
            let new_len = match rng.below(4) {
                0 => rng.pick(&SIZES),
                1 => old + rng.pick(&SIZES) / 8,
                2 => old.saturating_sub(rng.pick(&SIZES) / 8),
                _ => 12_000,
            };
            let new_len = if old > 40_000 { 100 } else { new_len };
            stream.set_len(new_len as u64).unwrap();
            data.resize(new_len, 0);
            handle.pos = handle.pos.min(new_len as u64);
            assert_eq!(stream.stream_position().unwrap(), handle.pos);
        }
        _ => stream.flush().unwrap(),
    }
    assert_eq!(handle.stream.len(), data.len() as u64, "len of {}", what);
}

fn run_history(
    seed: u64,
    version: Version,
    buffer_size: usize,
    chop: bool,
    steps: usize,
) -> (Vec<u8>, Model) {
    let mut rng = Rng::new(seed);
    let file = SharedFile::new(Vec::new());
    let bytes = file.data.clone();
    let ctl = file.ctl.clone();
    ctl.with(|c| c.chop = chop);
    let file =
        CompoundFile::create_with_version(version, file).unwrap().into_inner();
    let mut comp = OpenOptions::new()
        .max_buffer_size(buffer_size)
        .open_with(file)
        .unwrap();
    let mut model = Model::new();
    let mut handles: Vec<Handle> = Vec::new();
    for step in 0..steps {
        let what = format!("seed {} step {}", seed, step);
        let open = |path: &str, handles: &Vec<Handle>| {
            handles.iter().any(|h| h.path == path)
        };
        'op: {
            match rng.below(100) {
                0..=9 => {
                    let path = rng.pick(&STORAGES);
                    let before = bytes.lock().unwrap().clone();
                    let result = comp.create_storage(path);
                    let existed = model.contains_key(path);
                    if existed {
                        expect_kind(result, ErrorKind::AlreadyExists, &what);
                    } else if !is_storage(&model, parent_of(path)) {
                        expect_kind(result, ErrorKind::NotFound, &what);
                    } else {
                        result.unwrap();
                        comp.set_created_time(path, pinned_time()).unwrap();
                        comp.set_modified_time(path, pinned_time()).unwrap();
                        model.insert(path.to_string(), Node::Storage);
                    }
                    if existed || !model.contains_key(path) {
                        assert!(
                            before == *bytes.lock().unwrap(),
                            "{}: C10",
                            what
                        );
                    }
                }
                10..=14 => {
                    let path = rng.pick(&STORAGES);
                    let before = bytes.lock().unwrap().clone();
                    let result = comp.remove_storage(path);
                    if !model.contains_key(path) {
                        expect_kind(result, ErrorKind::NotFound, &what);
                    } else if has_children(&model, path) {
                        expect_kind(result, ErrorKind::InvalidInput, &what);
                    } else {
                        result.unwrap();
                        model.remove(path);
                    }
                    if model.contains_key(path) {
                        assert!(
                            before == *bytes.lock().unwrap(),
                            "{}: C10",
                            what
                        );
                    }
                }
                15..=29 => {
                    let path = format!(
                        "{}/{}",
                        rng.pick(&PARENTS),
                        rng.pick(&LEAVES)
                    );
                    if open(&path, &handles) {
                        break 'op;
                    }
                    let before = bytes.lock().unwrap().clone();
                    let result = comp.create_stream(&path);
                    if !is_storage(&model, parent_of(&path)) {
                        expect_kind(result, ErrorKind::NotFound, &what);
                        assert!(before == *bytes.lock().unwrap(), "{}", what);
                        break 'op;
                    }
                    let stream = result.unwrap();
                    model.insert(path.clone(), Node::Stream(Vec::new()));
                    let mut handle = Handle { path, stream, pos: 0 };
                    handle_op(&mut rng, &mut handle, &mut model);
                    if handles.len() < 3 {
                        handles.push(handle);
                    }
                }
                30..=36 => {
                    let path = format!(
                        "{}/{}",
                        rng.pick(&PARENTS),
                        rng.pick(&LEAVES)
                    );
                    if open(&path, &handles) {
                        break 'op;
                    }
                    let result = comp.remove_stream(&path);
                    if model.contains_key(&path) {
                        result.unwrap();
                        model.remove(&path);
                    } else {
                        expect_kind(result, ErrorKind::NotFound, &what);
                    }
                }
                37..=44 => {
                    let path = format!(
                        "{}/{}",
                        rng.pick(&PARENTS),
                        rng.pick(&LEAVES)
                    );
                    if open(&path, &handles) || handles.len() >= 3 {
                        break 'op;
                    }
                    let result = comp.open_stream(&path);
                    if model.contains_key(&path) {
                        let stream = result.unwrap();
                        handles.push(Handle { path, stream, pos: 0 });
                    } else {
                        expect_kind(result, ErrorKind::NotFound, &what);
                    }
                }
                45..=49 => {
                    if !handles.is_empty() {
                        let index = rng.below(handles.len() as u64) as usize;
                        let mut handle = handles.swap_remove(index);
                        handle.stream.flush().unwrap();
                    }
                }
                _ => {
                    if !handles.is_empty() {
                        let index = rng.below(handles.len() as u64) as usize;
                        handle_op(&mut rng, &mut handles[index], &mut model);
                    }
                }
            }
        }
        if rng.below(8) == 0 || step + 1 == steps {
            for handle in handles.iter_mut() {
                handle.stream.flush().unwrap();
            }
            let image = bytes.lock().unwrap().clone();
            check_image(&image, &model, &what);
            // The live object agrees with the model as well.
            assert!(contents(&mut comp) == model, "{}: live differs", what);
        }
    }
    drop(handles);
    let image = bytes.lock().unwrap().clone();
    assert!(comp.into_inner().snapshot() == image);
    (image, model)
}

#[test]
fn histories_match_model_and_do_not_depend_on_chunking() {
    with_watchdog(|| {
        for seed in 1..=10u64 {
            for version in [Version::V3, Version::V4] {
                let (plain, model) =
                    run_history(seed, version, 4096, false, 220);
                let (chopped, model2) =
                    run_history(seed, version, 4096, true, 220);
                assert!(model == model2, "seed {}: outcome differs", seed);
                assert!(plain == chopped, "seed {}: bytes differ", seed);
                let (_, model3) = run_history(seed, version, 1, true, 220);
                assert!(model == model3, "seed {}: outcome differs", seed);
                let (_, model4) =
                    run_history(seed, version, 1 << 20, false, 220);
                assert!(model == model4, "seed {}: outcome differs", seed);
            }
        }
    });
}

//===========================================================================//
// Faults at every position of a set of API calls (C12, C13, error kinds).

const KINDS: [ErrorKind; 12] = [
    ErrorKind::Other,
    ErrorKind::UnexpectedEof,
    ErrorKind::WriteZero,
    ErrorKind::PermissionDenied,
    ErrorKind::InvalidData,
    ErrorKind::InvalidInput,
    ErrorKind::NotFound,
    ErrorKind::AlreadyExists,
    ErrorKind::TimedOut,
    ErrorKind::BrokenPipe,
    ErrorKind::Unsupported,
    ErrorKind::OutOfMemory,
];

fn pattern(seed: u64, len: usize) -> Vec<u8> {
    Rng::new(seed).bytes(len)
}

fn base_model() -> Model {
    let mut model = Model::new();
    model.insert("/dir".into(), Node::Storage);
    model.insert("/small".into(), Node::Stream(pattern(1, 100)));
    model.insert("/edge".into(), Node::Stream(pattern(2, 4095)));
    model.insert("/big".into(), Node::Stream(pattern(3, 10_000)));
    model.insert("/dir/inner".into(), Node::Stream(pattern(4, 5000)));
    model.insert("/dir/tiny".into(), Node::Stream(pattern(5, 64)));
    model
}

fn base_image(version: Version) -> Vec<u8> {
    let model = base_model();
    let cursor = Cursor::new(Vec::new());
    let mut comp = CompoundFile::create_with_version(version, cursor).unwrap();
    for (path, node) in model.iter() {
        match node {
            Node::Storage => {
                comp.create_storage(path).unwrap();
                comp.set_created_time(path, pinned_time()).unwrap();
                comp.set_modified_time(path, pinned_time()).unwrap();
            }
            Node::Stream(data) => {
                let mut stream = comp.create_stream(path).unwrap();
                stream.write_all(data).unwrap();
                stream.flush().unwrap();
            }
        }
    }
    let bytes = comp.into_inner().into_inner();
    check_image(&bytes, &model, "base image");
    bytes
}

type Comp = CompoundFile<SharedFile>;

/// Writes through `write` (not `write_all`) so that the number of bytes that
/// the handle has accepted is known when a call fails.
fn write_counting(
    stream: &mut Stream<SharedFile>,
    mut data: &[u8],
    accepted: &mut usize,
) -> io::Result<()> {
    while !data.is_empty() {
        let n = stream.write(data)?;
        assert!(n > 0 && n <= data.len());
        *accepted += n;
        data = &data[n..];
    }
    Ok(())
}

/// One mutating scenario: the steps run until the first error.  Returns the
/// state that the model reaches if every step succeeds.
fn mutate(index: usize, comp: &mut Comp, model: &mut Model) -> io::Result<()> {
    match index {
        0 => {
            // Grow a mini stream across the cutoff through a handle.
            let extra = pattern(10, 5000);
            let mut stream = comp.open_stream("/small")?;
            stream.seek(SeekFrom::End(0))?;
            stream.write_all(&extra)?;
            stream.flush()?;
            stream_data(model, "/small").extend_from_slice(&extra);
        }
        1 => {
            let data = pattern(11, 300);
            let mut stream = comp.create_stream("/dir/new")?;
            stream.write_all(&data)?;
            stream.flush()?;
            model.insert("/dir/new".into(), Node::Stream(data));
        }
        2 => {
            let mut stream = comp.open_stream("/big")?;
            stream.set_len(20_000)?;
            stream_data(model, "/big").resize(20_000, 0);
            stream.set_len(100)?;
            stream_data(model, "/big").resize(100, 0);
            stream.set_len(4096)?;
            stream_data(model, "/big").resize(4096, 0);
        }
        3 => {
            comp.open_stream("/small")?.set_len(0)?;
            stream_data(model, "/small").clear();
            comp.open_stream("/edge")?.set_len(4097)?;
            stream_data(model, "/edge").resize(4097, 0);
        }
        4 => {
            comp.remove_stream("/dir/inner")?;
            model.remove("/dir/inner");
            comp.remove_stream("/dir/tiny")?;
            model.remove("/dir/tiny");
            comp.remove_storage("/dir")?;
            model.remove("/dir");
        }
        5 => {
            comp.create_storage("/dir/sub")?;
            comp.set_created_time("/dir/sub", pinned_time())?;
            comp.set_modified_time("/dir/sub", pinned_time())?;
            model.insert("/dir/sub".into(), Node::Storage);
            comp.set_state_bits("/big", 0xDEAD_BEEF)?;
            comp.flush()?;
        }
        6 => {
            // Enough new sectors to need another FAT sector in version 3.
            let data = pattern(12, 70_000);
            let mut stream = comp.create_stream("/huge")?;
            stream.write_all(&data)?;
            stream.flush()?;
            model.insert("/huge".into(), Node::Stream(data));
        }
        7 => {
            // Many mini streams: MiniFAT and mini stream have to grow.
            for i in 0..12 {
                let path = format!("/dir/m{}", i);
                let data = pattern(20 + i, 700);
                let mut stream = comp.create_new_stream(&path)?;
                stream.write_all(&data)?;
                stream.flush()?;
                model.insert(path, Node::Stream(data));
            }
        }
        8 => {
            // Overwrite in the middle of a regular and of a mini stream.
            let data = pattern(13, 3000);
            let mut stream = comp.open_stream("/big")?;
            stream.seek(SeekFrom::Start(4000))?;
            stream.write_all(&data)?;
            stream.flush()?;
            stream_data(model, "/big")[4000..7000].copy_from_slice(&data);
            let mut stream = comp.open_stream("/dir/tiny")?;
            stream.seek(SeekFrom::Start(60))?;
            stream.write_all(&data[..10])?;
            stream.flush()?;
            let tiny = stream_data(model, "/dir/tiny");
            tiny.truncate(60);
            tiny.extend_from_slice(&data[..10]);
        }
        9 => {
            comp.create_storage_all("/p/q/r")?;
            for path in ["/p", "/p/q", "/p/q/r"] {
                comp.set_created_time(path, pinned_time())?;
                comp.set_modified_time(path, pinned_time())?;
                model.insert(path.into(), Node::Storage);
            }
            let mut stream = comp.create_new_stream("/p/q/r/leaf")?;
            stream.write_all(b"leaf")?;
            stream.flush()?;
            model.insert("/p/q/r/leaf".into(), Node::Stream(b"leaf".to_vec()));
        }
        10 => {
            comp.remove_storage_all("/dir")?;
            model.retain(|path, _| !path.starts_with("/dir"));
            comp.remove_stream("/edge")?;
            model.remove("/edge");
        }
        11 => {
            // Replace a regular and a mini stream by new, shorter ones.
            let mut stream = comp.create_stream("/big")?;
            stream.write_all(b"short")?;
            stream.flush()?;
            model.insert("/big".into(), Node::Stream(b"short".to_vec()));
            comp.create_stream("/small")?;
            model.insert("/small".into(), Node::Stream(Vec::new()));
            comp.set_modified_time("/dir", pinned_time())?;
            comp.set_state_bits("/dir/inner", 7)?;
        }
        _ => unreachable!(),
    }
    Ok(())
}

const NUM_MUTATIONS: usize = 12;

fn open_base(image: &[u8]) -> (Comp, Ctl, Arc<Mutex<Vec<u8>>>) {
    let file = SharedFile::new(image.to_vec());
    let ctl = file.ctl.clone();
    let bytes = file.data.clone();
    let comp =
        OpenOptions::new().max_buffer_size(2048).open_with(file).unwrap();
    (comp, ctl, bytes)
}

fn check_fault_error(err: &io::Error, kind: ErrorKind, what: &str) {
    assert_eq!(err.kind(), kind, "{}: kind changed: {}", what, err);
    let text = err.to_string();
    assert!(text.ends_with(MSG), "{}: original message lost: {}", what, text);
}

/// After a failed mutation: nothing panics or hangs, and a flush that
/// succeeds means that the data is there (C13).
fn check_after_write_fault(comp: &mut Comp, what: &str) {
    let entries: Vec<_> = comp.walk().collect();
    for entry in entries.iter().filter(|e| e.is_stream()) {
        if let Ok(mut stream) = comp.open_stream(entry.path()) {
            let mut data = Vec::new();
            let _ = stream.read_to_end(&mut data);
        }
    }
    let data = pattern(77, 6000);
    if let Ok(mut stream) = comp.create_stream("/after") {
        if stream.write_all(&data).is_ok() && stream.flush().is_ok() {
            drop(stream);
            let mut fresh = comp.open_stream("/after").unwrap();
            let mut back = Vec::new();
            fresh.read_to_end(&mut back).unwrap();
            assert!(back == data, "{}: flushed data not read back", what);
        }
    }
    let _ = comp.remove_stream("/small");
    let _ = comp.create_storage("/later");
    let _ = comp.flush();
}

#[test]
fn write_faults_are_reported_with_their_kind() {
    with_watchdog(|| {
        let mut sample = None;
        for version in [Version::V3, Version::V4] {
            let image = base_image(version);
            for index in 0..NUM_MUTATIONS {
                // Without faults: count the calls and check the outcome.
                let (mut comp, ctl, bytes) = open_base(&image);
                let mut model = base_model();
                ctl.arm(ALL, u64::MAX, ErrorKind::Other);
                mutate(index, &mut comp, &mut model).unwrap();
                let calls = ctl.count();
                let what = format!("{:?} mutation {}", version, index);
                check_image(&bytes.lock().unwrap().clone(), &model, &what);
                assert!(calls > 0);
                // A fault at (a sample of) every position.
                let stride = (calls / 400).max(1);
                let mut position = 0;
                while position < calls {
                    let kind = KINDS[(position % 12) as usize];
                    let what = format!("{} fault {}", what, position);
                    let (mut comp, ctl, _bytes) = open_base(&image);
                    let mut model = base_model();
                    ctl.arm(ALL, position, kind);
                    let result = mutate(index, &mut comp, &mut model);
                    assert_eq!(ctl.fired(), 1, "{}", what);
                    ctl.disarm();
                    match result {
                        Ok(()) => panic!("{}: fault was swallowed", what),
                        Err(err) => {
                            check_fault_error(&err, kind, &what);
                            if err.to_string().len() > MSG.len() {
                                sample = Some(err.to_string());
                            }
                        }
                    }
                    check_after_write_fault(&mut comp, &what);
                    position += stride;
                }
            }
        }
        if let Some(text) = sample {
            eprintln!("sample error text: {}", text);
        }
    });
}

/// A handle whose flush failed keeps its data and writes it on the next
/// flush; only the bytes that `write` accepted are promised (C13).
#[test]
fn failed_flush_can_be_repeated() {
    with_watchdog(|| {
        for version in [Version::V3, Version::V4] {
            let image = base_image(version);
            for (path, offset, len) in [
                ("/small", 50u64, 200usize),
                ("/small", 100, 4500),
                ("/big", 9000, 3000),
                ("/edge", 4095, 1),
                ("/dir/tiny", 0, 1500),
            ] {
                let data = pattern(31, len);
                let (mut comp, ctl, _) = open_base(&image);
                ctl.arm(ALL, u64::MAX, ErrorKind::Other);
                {
                    let mut stream = comp.open_stream(path).unwrap();
                    stream.seek(SeekFrom::Start(offset)).unwrap();
                    stream.write_all(&data).unwrap();
                    stream.flush().unwrap();
                }
                let calls = ctl.count();
                for position in 0..calls {
                    let what =
                        format!("{:?} {} fault {}", version, path, position);
                    let kind = KINDS[(position % 12) as usize];
                    let (mut comp, ctl, _) = open_base(&image);
                    let mut stream = comp.open_stream(path).unwrap();
                    stream.seek(SeekFrom::Start(offset)).unwrap();
                    ctl.arm(ALL, position, kind);
                    let mut accepted = 0;
                    let mut result =
                        write_counting(&mut stream, &data, &mut accepted);
                    if result.is_ok() {
                        result = stream.flush();
                    }
                    assert_eq!(ctl.fired(), 1, "{}", what);
                    check_fault_error(&result.unwrap_err(), kind, &what);
                    ctl.disarm();
                    // Second attempt: the rest of the data, then flush.
                    let rest = data[accepted..].to_vec();
                    let retried =
                        write_counting(&mut stream, &rest, &mut accepted)
                            .and_then(|()| stream.flush());
                    if retried.is_ok() {
                        assert_eq!(accepted, data.len());
                        drop(stream);
                        let mut fresh = comp.open_stream(path).unwrap();
                        fresh.seek(SeekFrom::Start(offset)).unwrap();
                        let mut back = vec![0u8; data.len()];
                        fresh.read_exact(&mut back).unwrap();
                        assert!(back == data, "{}: data lost", what);
                    }
                }
            }
        }
    });
}

/// What the read-only calls return on an undamaged, fault-free file.
fn read_only_probe(
    comp: &mut Comp,
    rng: &mut Rng,
    handles: &mut BTreeMap<String, Stream<SharedFile>>,
) -> io::Result<String> {
    let paths = ["/small", "/edge", "/big", "/dir/inner", "/dir/tiny", "/no"];
    let path = rng.pick(&paths);
    Ok(match rng.below(5) {
        0 => {
            let entry = comp.entry(path)?;
            format!("{} {} {}", entry.name(), entry.len(), entry.is_stream())
        }
        1 => {
            let names: Vec<_> = comp
                .read_storage(rng.pick(&["/", "/dir"]))?
                .map(|e| e.name().to_string())
                .collect();
            names.join(",")
        }
        2 => {
            let names: Vec<_> = comp
                .walk()
                .map(|e| format!("{}:{}", e.path().display(), e.len()))
                .collect();
            names.join(",")
        }
        _ => {
            if !handles.contains_key(path) {
                let stream = comp.open_stream(path)?;
                handles.insert(path.to_string(), stream);
            }
            let stream = handles.get_mut(path).unwrap();
            let len = stream.len();
            let target = rng.below(len + 1);
            let size = rng.pick(&SIZES);
            let pos = stream.seek(SeekFrom::Start(target))?;
            let mut buf = vec![0u8; size];
            let mut n = 0;
            loop {
                let count = stream.read(&mut buf[n..])?;
                n += count;
                if count == 0 {
                    break;
                }
            }
            // The bytes must be the stream's true content at that place.
            let model = base_model();
            let truth = match &model[path] {
                Node::Stream(data) => data,
                Node::Storage => unreachable!(),
            };
            let start = pos as usize;
            assert_eq!(&buf[..n], &truth[start..start + n], "wrong data");
            assert_eq!(n, size.min(truth.len() - start));
            format!("{} {} {}", len, pos, n)
        }
    })
}

#[test]
fn read_faults_never_turn_into_wrong_data() {
    with_watchdog(|| {
        for version in [Version::V3, Version::V4] {
            let image = base_image(version);
            // Opening under a fault at every position.
            let file = SharedFile::new(image.clone());
            let ctl = file.ctl.clone();
            ctl.arm(ALL, u64::MAX, ErrorKind::Other);
            let mut comp = CompoundFile::open_strict(file).unwrap();
            assert!(contents(&mut comp) == base_model());
            let calls = ctl.count();
            for position in 0..calls {
                let kind = KINDS[(position % 12) as usize];
                let what = format!("{:?} open fault {}", version, position);
                let file = SharedFile::new(image.clone());
                let ctl = file.ctl.clone();
                ctl.arm(RD | SK, position, kind);
                let strict = position % 2 == 0;
                let result = if strict {
                    CompoundFile::open_strict(file)
                } else {
                    CompoundFile::open(file)
                };
                match result {
                    Err(err) => {
                        assert_eq!(ctl.fired(), 1, "{}", what);
                        check_fault_error(&err, kind, &what)
                    }
                    Ok(mut comp) => {
                        // The fault hits one of the reads below instead;
                        // `contents` would panic on it, so only disarm.
                        ctl.disarm();
                        assert!(contents(&mut comp) == base_model());
                    }
                }
            }
            // Random faults during read-only use of one object.
            for seed in 0..6u64 {
                let (mut plain, _, _) = open_base(&image);
                let (mut faulty, ctl, bytes) = open_base(&image);
                ctl.with(|c| {
                    c.mask = RD | SK;
                    c.kind = KINDS[seed as usize];
                    c.fail_per_mille = 60;
                    c.chop = seed % 2 == 0;
                });
                let mut rng_a = Rng::new(seed + 100);
                let mut rng_b = Rng::new(seed + 100);
                let mut handles_a = BTreeMap::new();
                let mut handles_b = BTreeMap::new();
                let mut failures = 0;
                for step in 0..600 {
                    let what =
                        format!("{:?} seed {} step {}", version, seed, step);
                    let expected = read_only_probe(
                        &mut plain,
                        &mut rng_a,
                        &mut handles_a,
                    );
                    let before = ctl.fired();
                    let got = read_only_probe(
                        &mut faulty,
                        &mut rng_b,
                        &mut handles_b,
                    );
                    match (expected, got) {
                        (Ok(a), Ok(b)) => assert_eq!(a, b, "{}", what),
                        (Err(a), Err(b)) if ctl.fired() == before => {
                            assert_eq!(a.kind(), b.kind(), "{}", what);
                            assert_eq!(a.to_string(), b.to_string());
                        }
                        (_, Err(err)) => {
                            assert!(ctl.fired() > before, "{}: {}", what, err);
                            check_fault_error(
                                &err,
                                KINDS[seed as usize],
                                &what,
                            );
                            failures += 1;
                        }
                        (Err(a), Ok(b)) => panic!("{}: {} vs {}", what, a, b),
                    }
                }
                assert!(failures > 10, "faults were not exercised");
                assert!(
                    *bytes.lock().unwrap() == image,
                    "file was written to"
                );
            }
        }
    });
}

/// An interrupted read or write that succeeds when repeated is invisible
/// (C18), wherever it happens.
#[test]
fn single_interrupts_are_invisible() {
    with_watchdog(|| {
        for version in [Version::V3, Version::V4] {
            let image = base_image(version);
            for index in 0..NUM_MUTATIONS {
                let (mut comp, ctl, bytes) = open_base(&image);
                let mut model = base_model();
                ctl.arm(RD | WR, u64::MAX, ErrorKind::Other);
                mutate(index, &mut comp, &mut model).unwrap();
                let calls = ctl.count();
                let expected = bytes.lock().unwrap().clone();
                let stride = (calls / 150).max(1);
                let mut position = 0;
                while position < calls {
                    let (mut comp, ctl, bytes) = open_base(&image);
                    let mut model = base_model();
                    ctl.arm(RD | WR, u64::MAX, ErrorKind::Other);
                    ctl.with(|c| c.interrupt_at = Some(position));
                    mutate(index, &mut comp, &mut model).unwrap();
                    assert_eq!(ctl.fired(), 1);
                    assert!(
                        *bytes.lock().unwrap() == expected,
                        "{:?} mutation {} interrupt {}: bytes differ",
                        version,
                        index,
                        position
                    );
                    position += stride;
                }
            }
        }
    });
}

//===========================================================================//
// Errors that the library raises itself keep their kinds and texts, and leave
// the file untouched (C06, C10).

#[test]
fn rejected_calls_keep_their_kinds_and_change_nothing() {
    with_watchdog(rejected_calls);
}

fn rejected_calls() {
    let image = base_image(Version::V4);
    let (mut comp, _, bytes) = open_base(&image);
    let kind = |r: io::Result<()>| r.unwrap_err().kind();
    assert_eq!(kind(comp.open_stream("/nope").map(drop)), ErrorKind::NotFound);
    assert_eq!(
        kind(comp.open_stream("/dir").map(drop)),
        ErrorKind::InvalidInput
    );
    assert_eq!(
        kind(comp.create_new_stream("/big").map(drop)),
        ErrorKind::AlreadyExists
    );
    assert_eq!(kind(comp.create_storage("/dir")), ErrorKind::AlreadyExists);
    assert_eq!(kind(comp.create_storage("/x/y")), ErrorKind::NotFound);
    assert_eq!(kind(comp.create_storage("/a:b")), ErrorKind::InvalidInput);
    assert_eq!(kind(comp.remove_storage("/dir")), ErrorKind::InvalidInput);
    assert_eq!(kind(comp.remove_storage("/")), ErrorKind::InvalidInput);
    assert_eq!(kind(comp.remove_stream("/dir")), ErrorKind::InvalidInput);
    assert_eq!(kind(comp.set_state_bits("/nope", 1)), ErrorKind::NotFound);
    let mut stream = comp.open_stream("/big").unwrap();
    for seek in [
        SeekFrom::Start(10_001),
        SeekFrom::End(1),
        SeekFrom::End(-10_001),
        SeekFrom::Current(-1),
        SeekFrom::Current(i64::MIN),
        SeekFrom::Start(u64::MAX),
        SeekFrom::End(i64::MIN),
    ] {
        let err = stream.seek(seek).unwrap_err();
        assert_eq!(err.kind(), ErrorKind::InvalidInput);
        assert_eq!(stream.stream_position().unwrap(), 0);
    }
    assert_eq!(
        kind(stream.set_len(u64::MAX)),
        ErrorKind::InvalidInput,
        "impossible length"
    );
    assert_eq!(stream.len(), 10_000);
    assert!(*bytes.lock().unwrap() == image, "a rejected call wrote");
    // A handle that outlives its compound file reports that, verbatim.
    stream.write_all(b"x").unwrap();
    drop(comp);
    let err = stream.flush().unwrap_err();
    assert_eq!(err.kind(), ErrorKind::Other);
    assert_eq!(err.to_string(), "CompoundFile was dropped");
    // A file cut off in the middle of a sector is UnexpectedEof.
    let cursor = Cursor::new(Vec::new());
    let mut comp =
        CompoundFile::create_with_version(Version::V3, cursor).unwrap();
    comp.create_stream("/x").unwrap().write_all(&pattern(9, 5000)).unwrap();
    let mut cut = comp.into_inner().into_inner();
    cut.truncate(cut.len() - 511);
    let mut comp = CompoundFile::open(Cursor::new(cut)).unwrap();
    let mut all = Vec::new();
    let result = comp.open_stream("/x").unwrap().read_to_end(&mut all);
    assert_eq!(result.unwrap_err().kind(), ErrorKind::UnexpectedEof);
}

//===========================================================================//
// Readers on other threads while stream calls fail and succeed (C14).

#[test]
fn failing_stream_calls_do_not_block_concurrent_readers() {
    with_watchdog(|| {
        for version in [Version::V3, Version::V4] {
            let image = base_image(version);
            let (mut comp, ctl, _) = open_base(&image);
            let mut big = comp.open_stream("/big").unwrap();
            let mut small = comp.open_stream("/small").unwrap();
            let done = Arc::new(Mutex::new(false));
            // Lets the readers go home also if the checks below fail.
            struct SetOnDrop(Arc<Mutex<bool>>);
            impl Drop for SetOnDrop {
                fn drop(&mut self) {
                    *self.0.lock().unwrap() = true;
                }
            }
            let comp = &comp;
            std::thread::scope(|scope| {
                for reader in 0..3 {
                    let done = done.clone();
                    scope.spawn(move || {
                        let mut rounds = 0u64;
                        while !*done.lock().unwrap() || rounds < 20 {
                            rounds += 1;
                            assert!(comp.exists("/big"));
                            assert!(comp.is_stream("/dir/inner"));
                            assert!(comp.is_storage("/dir"));
                            assert!(comp.root_entry().is_root());
                            let entry = comp.entry("/dir/tiny").unwrap();
                            assert_eq!(entry.len(), 64);
                            let n = comp.read_storage("/dir").unwrap().count();
                            assert_eq!(n, 2);
                            let n = comp.walk().count();
                            assert_eq!(n, 7, "reader {}", reader);
                            assert!(comp.entry("/big").unwrap().is_stream());
                        }
                    });
                }
                ctl.with(|c| {
                    c.mask = ALL;
                    c.kind = ErrorKind::TimedOut;
                    c.fail_per_mille = 30;
                });
                let _guard = SetOnDrop(done.clone());
                let mut rng = Rng::new(5);
                let mut failures = 0;
                for _ in 0..1500 {
                    let stream =
                        if rng.below(2) == 0 { &mut big } else { &mut small };
                    let len = stream.len();
                    let before = ctl.fired();
                    let result = match rng.below(5) {
                        0 => stream
                            .seek(SeekFrom::Start(rng.below(len + 1)))
                            .map(drop),
                        1 => {
                            let size = rng.pick(&SIZES);
                            stream.write(&rng.bytes(size)).map(drop)
                        }
                        2 => {
                            let mut buf = vec![0u8; rng.pick(&SIZES)];
                            stream.read(&mut buf).map(drop)
                        }
                        3 => {
                            // (A set_len that fails while writing the
                            // directory entry leaves the handle and the
                            // entry disagreeing about the length, which a
                            // debug assertion of the unchanged library
                            // trips over later; see notes1.md.  So resize
                            // without faults here.)
                            let rate = ctl.with(|c| {
                                std::mem::replace(&mut c.fail_per_mille, 0)
                            });
                            let result = stream.set_len(rng.below(9000));
                            ctl.with(|c| c.fail_per_mille = rate);
                            result
                        }
                        _ => stream.flush(),
                    };
                    // A call during which a fault fired must report it;
                    // after a failed write, later calls may fail as well.
                    if ctl.fired() > before {
                        let err = result.expect_err("fault was swallowed");
                        check_fault_error(&err, ErrorKind::TimedOut, "C14");
                        failures += 1;
                    }
                }
                assert!(failures > 10, "faults were not exercised");
                ctl.disarm();
            });
        }
    });
}

//===========================================================================//
// Real files (C18): same bytes as in memory, and the kinds of the errors of
// the file system are handed on.

fn build_sample<F: Read + Write + Seek>(comp: &mut CompoundFile<F>) {
    comp.create_storage("/dir").unwrap();
    comp.set_created_time("/dir", pinned_time()).unwrap();
    comp.set_modified_time("/dir", pinned_time()).unwrap();
    for (path, seed, len) in
        [("/dir/a", 1, 100), ("/b", 2, 4096), ("/dir/c", 3, 9000)]
    {
        let mut stream = comp.create_stream(path).unwrap();
        stream.write_all(&pattern(seed, len)).unwrap();
        stream.flush().unwrap();
    }
    comp.remove_stream("/b").unwrap();
    comp.open_stream("/dir/c").unwrap().set_len(50).unwrap();
    comp.flush().unwrap();
}

#[test]
fn real_files_behave_like_memory() {
    let dir = std::env::temp_dir()
        .join(format!("cfb_feature_check_{}", std::process::id()));
    std::fs::create_dir_all(&dir).unwrap();
    let path = dir.join("sample.cfb");
    let missing = dir.join("missing.cfb");
    let nowhere = dir.join("no_such_dir").join("x.cfb");

    let mut in_memory = CompoundFile::create(Cursor::new(Vec::new())).unwrap();
    build_sample(&mut in_memory);
    let expected = in_memory.into_inner().into_inner();
    {
        let mut on_disk = cfb::create(&path).unwrap();
        build_sample(&mut on_disk);
    }
    assert!(std::fs::read(&path).unwrap() == expected, "bytes differ");
    let mut model = Model::new();
    model.insert("/dir".into(), Node::Storage);
    model.insert("/dir/a".into(), Node::Stream(pattern(1, 100)));
    model.insert("/dir/c".into(), Node::Stream(pattern(3, 50)));
    assert!(contents(&mut cfb::open(&path).unwrap()) == model);
    assert!(contents(&mut cfb::open_rw(&path).unwrap()) == model);
    let strict = OpenOptions::new().strict().open(&path).unwrap();
    assert_eq!(strict.version(), Version::V4);

    // A read-only file refuses writes with the kind of the file system.
    let mut read_only = cfb::open(&path).unwrap();
    let mut stream = read_only.open_stream("/dir/a").unwrap();
    stream.write_all(b"x").unwrap();
    let err = stream.flush().unwrap_err();
    let mut plain = std::fs::File::open(&path).unwrap();
    let plain_err = plain.write(b"x").unwrap_err();
    assert_eq!(err.kind(), plain_err.kind());
    drop(stream);
    drop(read_only);
    assert!(std::fs::read(&path).unwrap() == expected, "bytes changed");

    for result in [
        cfb::open(&missing).map(drop),
        cfb::open_rw(&missing).map(drop),
        cfb::create(&nowhere).map(drop),
        OpenOptions::new().strict().open(&missing).map(drop),
    ] {
        assert_eq!(result.unwrap_err().kind(), ErrorKind::NotFound);
    }
    assert!(!missing.exists() && !nowhere.exists());
    // A directory is not a compound file; the kind is the file system's.
    let dir_err = cfb::open(&dir).map(drop).unwrap_err();
    let mut probe = [0u8; 8];
    let plain_kind = std::fs::File::open(&dir)
        .and_then(|mut f| f.read(&mut probe))
        .unwrap_err()
        .kind();
    assert_eq!(dir_err.kind(), plain_kind);
    std::fs::remove_dir_all(&dir).unwrap();
}
