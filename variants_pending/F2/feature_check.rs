//! Behavioural checks for directory lookups (public API + std only).
//!
//! Everything here compares the library with something that shares no code
//! with it: an in-memory tree model with its own case folding and ordering, a
//! tiny parser that walks the sibling trees straight from the byte image, and
//! the listing the library itself produces (lookup <=> listing consistency,
//! which must also hold after failed insertions and removals).

use cfb::{CompoundFile, OpenOptions, Version};
use std::io::{self, Cursor, ErrorKind, Read, Seek, SeekFrom, Write};
use std::sync::{Arc, Mutex};

//===========================================================================//
// PRNG

struct Rng(u64);

impl Rng {
    fn new(seed: u64) -> Rng {
        Rng(seed.wrapping_mul(0x9E37_79B9_7F4A_7C15) | 1)
    }
    fn next(&mut self) -> u64 {
        let mut x = self.0;
        x ^= x >> 12;
        x ^= x << 25;
        x ^= x >> 27;
        self.0 = x;
        x.wrapping_mul(0x2545_F491_4F6C_DD1D)
    }
    fn below(&mut self, n: usize) -> usize {
        ((self.next() >> 33) as usize) % n
    }
    fn chance(&mut self, pct: usize) -> bool {
        self.below(100) < pct
    }
    fn pick<'a, T>(&mut self, xs: &'a [T]) -> &'a T {
        &xs[self.below(xs.len())]
    }
}

//===========================================================================//
// A shared, fault-injecting backend.

#[derive(Default)]
struct Plan {
    armed: bool,
    countdown: u64, // operations that still succeed
    burst: u64,     // operations that fail afterwards
    reads_too: bool,
    hits: u64,
}

#[derive(Clone)]
struct SharedFile {
    data: Arc<Mutex<Vec<u8>>>,
    plan: Arc<Mutex<Plan>>,
    pos: u64,
}

impl SharedFile {
    fn new(bytes: Vec<u8>) -> SharedFile {
        SharedFile {
            data: Arc::new(Mutex::new(bytes)),
            plan: Arc::new(Mutex::new(Plan::default())),
            pos: 0,
        }
    }
    fn snapshot(&self) -> Vec<u8> {
        self.data.lock().unwrap().clone()
    }
    fn arm(&self, countdown: u64, burst: u64, reads_too: bool) {
        let mut plan = self.plan.lock().unwrap();
        *plan = Plan { armed: true, countdown, burst, reads_too, hits: 0 };
    }
    fn disarm(&self) -> u64 {
        let mut plan = self.plan.lock().unwrap();
        plan.armed = false;
        std::mem::take(&mut plan.hits)
    }
    fn tick(&self, is_read: bool) -> io::Result<()> {
        let mut plan = self.plan.lock().unwrap();
        if !plan.armed || (is_read && !plan.reads_too) {
            return Ok(());
        }
        if plan.countdown > 0 {
            plan.countdown -= 1;
            return Ok(());
        }
        plan.hits += 1;
        if std::env::var("FC_TRACE").is_ok() {
            eprintln!(
                "fault hit (read={}) at {}",
                is_read,
                std::backtrace::Backtrace::force_capture()
            );
        }
        plan.burst -= 1;
        if plan.burst == 0 {
            plan.armed = false;
        }
        Err(io::Error::new(ErrorKind::Other, "injected fault"))
    }
}

impl Read for SharedFile {
    fn read(&mut self, buf: &mut [u8]) -> io::Result<usize> {
        self.tick(true)?;
        let data = self.data.lock().unwrap();
        let start = (self.pos as usize).min(data.len());
        let n = buf.len().min(data.len() - start);
        buf[..n].copy_from_slice(&data[start..start + n]);
        self.pos += n as u64;
        Ok(n)
    }
}

impl Write for SharedFile {
    fn write(&mut self, buf: &[u8]) -> io::Result<usize> {
        self.tick(false)?;
        let mut data = self.data.lock().unwrap();
        let start = self.pos as usize;
        if data.len() < start + buf.len() {
            data.resize(start + buf.len(), 0);
        }
        data[start..start + buf.len()].copy_from_slice(buf);
        self.pos += buf.len() as u64;
        Ok(buf.len())
    }
    fn flush(&mut self) -> io::Result<()> {
        self.tick(false)
    }
}

impl Seek for SharedFile {
    fn seek(&mut self, to: SeekFrom) -> io::Result<u64> {
        self.tick(false)?;
        let len = self.data.lock().unwrap().len() as i128;
        let target = match to {
            SeekFrom::Start(p) => p as i128,
            SeekFrom::End(d) => len + d as i128,
            SeekFrom::Current(d) => self.pos as i128 + d as i128,
        };
        if target < 0 || target > u64::MAX as i128 {
            return Err(io::Error::new(ErrorKind::InvalidInput, "bad seek"));
        }
        self.pos = target as u64;
        Ok(self.pos)
    }
}

//===========================================================================//
// Independent case folding and ordering.

/// Case-equivalence groups used by the name generator; the first member is
/// the upper-case form.  All members of a group have the same UTF-16 length.
const GROUPS: &[&[char]] = &[
    &['S', 's', '\u{17f}'],             // long s
    &['I', 'i', '\u{131}'],             // dotless i
    &['\u{c9}', '\u{e9}'],              // E acute
    &['\u{d6}', '\u{f6}'],              // O diaeresis
    &['\u{178}', '\u{ff}'],             // Y diaeresis
    &['\u{414}', '\u{434}'],            // Cyrillic De
    &['\u{3a3}', '\u{3c3}', '\u{3c2}'], // Sigma, sigma, final sigma
    &['\u{1c4}', '\u{1c6}', '\u{1c5}'], // DZ with caron (upper, lower, title)
    &['\u{10400}', '\u{10428}'],        // Deseret long I (two UTF-16 units)
    &['\u{39c}', '\u{b5}', '\u{3bc}'],
    &['\u{1f88}', '\u{1f80}'], // alpha with psili and (pros/ypo)gegrammeni  // Mu, micro sign, mu
];

/// Characters that are their own upper case although they look like letters.
const LONERS: &[char] = &['\u{df}', '\u{1e9e}', '\u{149}', '\u{130}'];

fn upper(c: char) -> char {
    for group in GROUPS {
        if group.contains(&c) {
            return group[0];
        }
    }
    c.to_ascii_uppercase()
}

fn utf16_len(name: &str) -> usize {
    name.encode_utf16().count()
}

fn cfb_cmp(a: &str, b: &str) -> std::cmp::Ordering {
    utf16_len(a)
        .cmp(&utf16_len(b))
        .then_with(|| a.chars().map(upper).cmp(b.chars().map(upper)))
}

fn same_name(a: &str, b: &str) -> bool {
    cfb_cmp(a, b) == std::cmp::Ordering::Equal
}

fn variant(rng: &mut Rng, name: &str) -> String {
    name.chars()
        .map(|c| {
            if !rng.chance(60) {
                return c;
            }
            for group in GROUPS {
                if group.contains(&c) {
                    return *rng.pick(group);
                }
            }
            if c.is_ascii_lowercase() {
                c.to_ascii_uppercase()
            } else {
                c.to_ascii_lowercase()
            }
        })
        .collect()
}

fn name_is_valid(name: &str) -> bool {
    utf16_len(name) <= 31 && !name.contains(&['/', '\\', ':', '!'][..])
}

fn random_char(rng: &mut Rng) -> char {
    match rng.below(10) {
        0..=3 => *rng.pick(&['a', 'b', 's', 'S', 'i', 'I', 'z', 'Z']),
        4..=6 => {
            let group = *rng.pick(GROUPS);
            *rng.pick(group)
        }
        7 => *rng.pick(LONERS),
        _ => *rng.pick(&['0', '9', '_', ' ', '.', '-', '~', '$']),
    }
}

fn random_name(rng: &mut Rng) -> String {
    let target = match rng.below(100) {
        0..=74 => 1 + rng.below(3),
        75..=89 => 29 + rng.below(3),
        90..=93 => 32 + rng.below(3),
        _ => 4 + rng.below(8),
    };
    let mut name = String::new();
    while utf16_len(&name) < target {
        name.push(random_char(rng));
    }
    if rng.chance(3) {
        name.push(*rng.pick(&['\\', ':', '!']));
    }
    if name == "." || name == ".." {
        name.push('x');
    }
    name
}

//===========================================================================//
// The model.

#[derive(Clone, Debug, PartialEq)]
enum Kind {
    Stream(Vec<u8>),
    Storage(Vec<Node>),
}

#[derive(Clone, Debug, PartialEq)]
struct Node {
    name: String,
    bits: u32,
    kind: Kind,
}

#[derive(Clone, Copy, Debug, PartialEq)]
enum Fail {
    NotFound,
    Exists,
    Invalid,
}

fn fail_of(err: &io::Error) -> Fail {
    match err.kind() {
        ErrorKind::NotFound => Fail::NotFound,
        ErrorKind::AlreadyExists => Fail::Exists,
        ErrorKind::InvalidInput => Fail::Invalid,
        other => panic!("unexpected error kind {:?}: {}", other, err),
    }
}

fn outcome<T>(result: &io::Result<T>) -> Result<(), Fail> {
    match result {
        Ok(_) => Ok(()),
        Err(err) => Err(fail_of(err)),
    }
}

impl Node {
    fn root() -> Node {
        Node {
            name: "Root Entry".to_string(),
            bits: 0,
            kind: Kind::Storage(Vec::new()),
        }
    }
    fn is_stream(&self) -> bool {
        matches!(self.kind, Kind::Stream(_))
    }
    fn children(&self) -> &[Node] {
        match &self.kind {
            Kind::Storage(children) => children,
            Kind::Stream(_) => &[],
        }
    }
    fn len(&self) -> u64 {
        match &self.kind {
            Kind::Stream(data) => data.len() as u64,
            Kind::Storage(_) => 0,
        }
    }
    fn find(&self, names: &[String]) -> Option<&Node> {
        let mut node = self;
        for name in names {
            node =
                node.children().iter().find(|c| same_name(&c.name, name))?;
        }
        Some(node)
    }
    fn find_mut(&mut self, names: &[String]) -> Option<&mut Node> {
        let mut node = self;
        for name in names {
            node = match &mut node.kind {
                Kind::Storage(children) => {
                    children.iter_mut().find(|c| same_name(&c.name, name))?
                }
                Kind::Stream(_) => return None,
            };
        }
        Some(node)
    }
    fn insert(&mut self, names: &[String], kind: Kind) -> Result<(), Fail> {
        let (name, parent_names) = names.split_last().unwrap();
        let parent = match self.find_mut(parent_names) {
            Some(parent) if !parent.is_stream() => parent,
            _ => return Err(Fail::NotFound),
        };
        if !name_is_valid(name) {
            return Err(Fail::Invalid);
        }
        if let Kind::Storage(children) = &mut parent.kind {
            let at = children
                .iter()
                .position(|c| cfb_cmp(name, &c.name).is_lt())
                .unwrap_or(children.len());
            children.insert(at, Node { name: name.clone(), bits: 0, kind });
        }
        Ok(())
    }
    fn delete(&mut self, names: &[String]) {
        let (name, parent_names) = names.split_last().unwrap();
        if let Kind::Storage(children) =
            &mut self.find_mut(parent_names).unwrap().kind
        {
            children.retain(|c| !same_name(&c.name, name));
        }
    }

    fn create_storage(&mut self, names: &[String]) -> Result<(), Fail> {
        if self.find(names).is_some() {
            return Err(Fail::Exists);
        }
        self.insert(names, Kind::Storage(Vec::new()))
    }
    fn create_storage_all(&mut self, names: &[String]) -> Result<(), Fail> {
        if names.iter().any(|n| !name_is_valid(n)) {
            return Err(Fail::Invalid);
        }
        for end in 1..=names.len() {
            match self.find(&names[..end]) {
                Some(node) if !node.is_stream() => continue,
                _ => self.create_storage(&names[..end])?,
            }
        }
        Ok(())
    }
    fn create_stream(
        &mut self,
        names: &[String],
        overwrite: bool,
    ) -> Result<(), Fail> {
        if let Some(node) = self.find_mut(names) {
            return match &mut node.kind {
                Kind::Stream(data) if overwrite => {
                    data.clear();
                    Ok(())
                }
                _ => Err(Fail::Exists),
            };
        }
        self.insert(names, Kind::Stream(Vec::new()))
    }
    fn remove_stream(&mut self, names: &[String]) -> Result<(), Fail> {
        match self.find(names) {
            None => Err(Fail::NotFound),
            Some(node) if !node.is_stream() => Err(Fail::Invalid),
            Some(_) => {
                self.delete(names);
                Ok(())
            }
        }
    }
    fn remove_storage(&mut self, names: &[String]) -> Result<(), Fail> {
        match self.find(names) {
            None => Err(Fail::NotFound),
            Some(node)
                if names.is_empty()
                    || node.is_stream()
                    || !node.children().is_empty() =>
            {
                Err(Fail::Invalid)
            }
            Some(_) => {
                self.delete(names);
                Ok(())
            }
        }
    }
    fn remove_storage_all(&mut self, names: &[String]) -> Result<(), Fail> {
        if self.find(names).is_none() {
            return Err(Fail::NotFound);
        }
        if names.is_empty() {
            self.kind = Kind::Storage(Vec::new());
        } else {
            self.delete(names);
        }
        Ok(())
    }

    /// Pre-order listing: (path, stored name, is_stream, len, state bits).
    fn preorder(&self) -> Vec<(String, String, bool, u64, u32)> {
        fn go(
            node: &Node,
            path: String,
            out: &mut Vec<(String, String, bool, u64, u32)>,
        ) {
            out.push((
                path.clone(),
                node.name.clone(),
                node.is_stream(),
                node.len(),
                node.bits,
            ));
            for child in node.children() {
                let sep = if path == "/" { "" } else { "/" };
                go(child, format!("{}{}{}", path, sep, child.name), out);
            }
        }
        let mut out = Vec::new();
        go(self, "/".to_string(), &mut out);
        out
    }

    /// The stored-name chains of all nodes (root = empty chain).
    fn all_chains(&self) -> Vec<Vec<String>> {
        fn go(node: &Node, chain: Vec<String>, out: &mut Vec<Vec<String>>) {
            out.push(chain.clone());
            for child in node.children() {
                let mut next = chain.clone();
                next.push(child.name.clone());
                go(child, next, out);
            }
        }
        let mut out = Vec::new();
        go(self, Vec::new(), &mut out);
        out
    }
}

fn canonical(names: &[String]) -> String {
    format!("/{}", names.join("/"))
}

/// Spells a name chain as a path with optional decorations that must not
/// change its meaning.
fn decorate(rng: &mut Rng, names: &[String]) -> String {
    if names.is_empty() {
        return rng.pick(&["/", "", ".", "/./", "q/.."]).to_string();
    }
    let mut parts: Vec<String> = Vec::new();
    for name in names {
        if rng.chance(10) {
            parts.push(".".to_string());
        }
        if rng.chance(10) {
            parts.push("zz".to_string());
            parts.push("..".to_string());
        }
        parts.push(name.clone());
    }
    let mut path = parts.join("/");
    if rng.chance(60) {
        path.insert(0, '/');
    }
    if rng.chance(15) {
        path.push('/');
    }
    path
}

//===========================================================================//
// Walking the sibling trees straight from the bytes.

struct RawEntry {
    name: String,
    obj_type: u8,
    left: u32,
    right: u32,
    child: u32,
}

fn le_u16(bytes: &[u8], at: usize) -> usize {
    u16::from_le_bytes([bytes[at], bytes[at + 1]]) as usize
}

fn le_u32(bytes: &[u8], at: usize) -> u32 {
    u32::from_le_bytes([
        bytes[at],
        bytes[at + 1],
        bytes[at + 2],
        bytes[at + 3],
    ])
}

fn parse_directory(bytes: &[u8]) -> Vec<RawEntry> {
    let sector_len = 1usize << le_u16(bytes, 30);
    let num_fat_sectors = le_u32(bytes, 44) as usize;
    assert!(num_fat_sectors <= 109, "test files are expected to stay small");
    let mut fat = Vec::new();
    for index in 0..num_fat_sectors {
        let start = (le_u32(bytes, 76 + 4 * index) as usize + 1) * sector_len;
        for at in (start..start + sector_len).step_by(4) {
            fat.push(le_u32(bytes, at));
        }
    }
    let mut entries = Vec::new();
    let mut sector = le_u32(bytes, 48);
    let mut guard = 0;
    while sector != 0xFFFF_FFFE {
        guard += 1;
        assert!(guard < 100_000, "directory chain loops");
        let start = (sector as usize + 1) * sector_len;
        for at in (start..start + sector_len).step_by(128) {
            let units = (le_u16(bytes, at + 64) / 2).saturating_sub(1).min(32);
            let utf16: Vec<u16> =
                (0..units).map(|i| le_u16(bytes, at + 2 * i) as u16).collect();
            entries.push(RawEntry {
                name: String::from_utf16_lossy(&utf16),
                obj_type: bytes[at + 66],
                left: le_u32(bytes, at + 68),
                right: le_u32(bytes, at + 72),
                child: le_u32(bytes, at + 76),
            });
        }
        sector = fat[sector as usize];
    }
    entries
}

/// What a search of the on-disk sibling trees finds for a name chain.
fn raw_lookup(entries: &[RawEntry], names: &[String]) -> Option<usize> {
    let mut id = 0usize;
    for name in names {
        let mut next = entries[id].child;
        let mut guard = 0;
        loop {
            if next == 0xFFFF_FFFF {
                return None;
            }
            guard += 1;
            assert!(guard <= entries.len(), "sibling tree loops");
            let entry = &entries[next as usize];
            match cfb_cmp(name, &entry.name) {
                std::cmp::Ordering::Equal => break,
                std::cmp::Ordering::Less => next = entry.left,
                std::cmp::Ordering::Greater => next = entry.right,
            }
        }
        id = next as usize;
    }
    Some(id)
}

fn check_against_bytes<F>(
    comp: &CompoundFile<F>,
    bytes: &[u8],
    chains: &[Vec<String>],
) {
    let entries = parse_directory(bytes);
    for chain in chains {
        let path = canonical(chain);
        match raw_lookup(&entries, chain) {
            None => {
                assert!(!comp.exists(&path), "{:?} must not be found", path);
                assert!(!comp.is_stream(&path) && !comp.is_storage(&path));
                let err = comp.entry(&path).unwrap_err();
                assert_eq!(err.kind(), ErrorKind::NotFound);
            }
            Some(id) => {
                assert!(comp.exists(&path), "{:?} must be found", path);
                let entry = comp.entry(&path).unwrap();
                assert_eq!(entry.name(), entries[id].name, "at {:?}", path);
                assert_eq!(entry.is_stream(), entries[id].obj_type == 2);
                assert_eq!(comp.is_stream(&path), entries[id].obj_type == 2);
                assert_eq!(comp.is_storage(&path), entries[id].obj_type != 2);
            }
        }
    }
}

//===========================================================================//
// Comparing a compound file with the model.

fn listing<F>(
    comp: &CompoundFile<F>,
) -> Vec<(String, String, bool, u64, u32)> {
    comp.walk()
        .map(|e| {
            (
                e.path().to_str().unwrap().to_string(),
                e.name().to_string(),
                e.is_stream(),
                // The root reports the size of the mini stream.
                if e.is_root() { 0 } else { e.len() },
                e.state_bits(),
            )
        })
        .collect()
}

fn check_model<F: Read + Seek>(
    comp: &mut CompoundFile<F>,
    model: &Node,
    pool: &[String],
    rng: &mut Rng,
    deep: bool,
) {
    assert_eq!(listing(comp), model.preorder());
    for chain in model.all_chains() {
        let node = model.find(&chain).unwrap();
        // Spelled differently, the path still addresses the same object.
        let spelled: Vec<String> =
            chain.iter().map(|n| variant(rng, n)).collect();
        let path = decorate(rng, &spelled);
        assert!(comp.exists(&path), "{:?} must exist", path);
        assert_eq!(comp.is_stream(&path), node.is_stream(), "{:?}", path);
        assert_eq!(comp.is_storage(&path), !node.is_stream(), "{:?}", path);
        let entry = comp.entry(&path).unwrap();
        assert_eq!(entry.name(), node.name);
        assert_eq!(entry.path().to_str().unwrap(), canonical(&spelled));
        if !chain.is_empty() {
            assert_eq!(entry.len(), node.len());
        }
        assert_eq!(entry.state_bits(), node.bits);
        assert_eq!(entry.is_root(), chain.is_empty());
        if node.is_stream() {
            let err = comp.read_storage(&path).err().unwrap();
            assert_eq!(err.kind(), ErrorKind::InvalidInput);
            // Nothing lives below a stream.
            let below = format!("{}/x", canonical(&spelled));
            assert!(!comp.exists(&below));
            if deep {
                let mut data = Vec::new();
                comp.open_stream(&path)
                    .unwrap()
                    .read_to_end(&mut data)
                    .unwrap();
                if let Kind::Stream(expected) = &node.kind {
                    assert!(&data == expected, "content of {:?}", path);
                }
            }
        } else {
            let names: Vec<String> = comp
                .read_storage(&path)
                .unwrap()
                .map(|e| e.name().to_string())
                .collect();
            let expected: Vec<String> =
                node.children().iter().map(|c| c.name.clone()).collect();
            assert_eq!(names, expected, "listing of {:?}", path);
            let walked: Vec<String> = comp
                .walk_storage(&path)
                .unwrap()
                .map(|e| e.name().to_string())
                .collect();
            let expected: Vec<String> =
                node.preorder().into_iter().map(|e| e.1).collect();
            assert_eq!(walked, expected, "walk of {:?}", path);
            // Names that are not there are not found.
            for _ in 0..3 {
                let picked = rng.pick(pool).clone();
                let name = variant(rng, &picked);
                let mut probe = spelled.clone();
                probe.push(name);
                let found = model.find(&probe).is_some();
                let path = decorate(rng, &probe);
                assert_eq!(comp.exists(&path), found, "{:?}", path);
                assert_eq!(comp.entry(&path).is_ok(), found, "{:?}", path);
            }
        }
    }
}

fn metadata<F>(comp: &CompoundFile<F>) -> Vec<String> {
    comp.walk()
        .map(|e| {
            format!(
                "{:?} {:?} {:?} {:?}",
                e.path(),
                e.clsid(),
                e.created(),
                e.modified()
            )
        })
        .collect()
}

/// The bytes alone, as they are, reopen to the same state (strict and
/// permissive), with any buffer size.
fn check_reopened(
    bytes: &[u8],
    live: &CompoundFile<SharedFile>,
    model: &Node,
    pool: &[String],
    rng: &mut Rng,
) {
    for strict in [false, true] {
        let mut options =
            OpenOptions::new().max_buffer_size(*rng.pick(&[0, 4096, 70000]));
        if strict {
            options = options.strict();
        }
        let mut reopened =
            options.open_with(Cursor::new(bytes.to_vec())).unwrap();
        assert_eq!(reopened.version(), live.version());
        assert_eq!(metadata(&reopened), metadata(live));
        check_model(&mut reopened, model, pool, rng, true);
    }
}

//===========================================================================//
// Making sibling trees deep.  The library does not balance them, so names
// that are inserted in descending order form a left-leaning spine, and every
// shorter name that is inserted afterwards hangs below its far end.  (Whether
// a search is long or short must not matter, but it may take different paths
// through the library.)

const SPINE: usize = 10;

fn spine_name(index: usize) -> String {
    format!("zzzzzz{:02}", index)
}

fn spine_path(dir: &str, index: usize) -> String {
    format!("{}/{}", dir.trim_end_matches('/'), spine_name(index))
}

fn add_spine<F: Read + Write + Seek>(comp: &mut CompoundFile<F>, dir: &str) {
    for index in (0..SPINE).rev() {
        comp.create_new_stream(spine_path(dir, index)).unwrap();
    }
}

fn remove_spine<F: Read + Write + Seek>(
    comp: &mut CompoundFile<F>,
    dir: &str,
) {
    for index in 0..SPINE {
        comp.remove_stream(spine_path(dir, index)).unwrap();
    }
}

/// The same through the model; the names may be taken already.
fn add_spine_with_model(
    comp: &mut CompoundFile<SharedFile>,
    model: &mut Node,
    dir: &[String],
) {
    for index in (0..SPINE).rev() {
        let mut chain = dir.to_vec();
        chain.push(spine_name(index));
        let expected = model.create_stream(&chain, false);
        let actual = outcome(&comp.create_new_stream(canonical(&chain)));
        assert_eq!(actual, expected);
    }
}

//===========================================================================//
// Randomized histories against the model.

fn random_data(rng: &mut Rng) -> Vec<u8> {
    let len = match rng.below(20) {
        0 => 0,
        1 => *rng.pick(&[63, 64, 65, 511, 512, 513]),
        2 => *rng.pick(&[4095, 4096, 4097, 8192, 9000]),
        _ => 1 + rng.below(200),
    };
    let salt = rng.next() as u8;
    (0..len).map(|i| (i as u8).wrapping_mul(31).wrapping_add(salt)).collect()
}

/// Picks a name chain: mostly an existing object, otherwise a (probably) new
/// name below some object.
fn random_chain(rng: &mut Rng, model: &Node, pool: &[String]) -> Vec<String> {
    let chains = model.all_chains();
    let mut chain = rng.pick(&chains).clone();
    if rng.chance(50) {
        // Prefer a storage as the parent of a new name.
        for _ in 0..3 {
            if model.find(&chain).unwrap().is_stream() {
                chain = rng.pick(&chains).clone();
            }
        }
        let name = if rng.chance(65) {
            rng.pick(pool).clone()
        } else {
            random_name(rng)
        };
        chain.push(name);
        if rng.chance(5) {
            chain.push(rng.pick(pool).clone());
        }
    }
    chain.iter().map(|n| variant(rng, n)).collect()
}

fn run_history(seed: u64, version: Version, steps: usize) {
    let mut rng = Rng::new(seed);
    let pool: Vec<String> = (0..20).map(|_| random_name(&mut rng)).collect();
    let mut file = SharedFile::new(Vec::new());
    let mut comp =
        CompoundFile::create_with_version(version, file.clone()).unwrap();
    let mut model = Node::root();
    if seed % 2 == 1 {
        add_spine_with_model(&mut comp, &mut model, &[]);
    }
    for step in 0..steps {
        let chain = random_chain(&mut rng, &model, &pool);
        let path = decorate(&mut rng, &chain);
        let before = file.snapshot();
        let expected;
        let actual;
        match rng.below(100) {
            0..=21 => {
                expected = model.create_stream(&chain, true);
                let result = comp.create_stream(&path);
                actual = outcome(&result);
                if let Ok(mut stream) = result {
                    let data = random_data(&mut rng);
                    stream.write_all(&data).unwrap();
                    drop(stream);
                    model.find_mut(&chain).unwrap().kind = Kind::Stream(data);
                }
            }
            22..=29 => {
                expected = model.create_stream(&chain, false);
                actual = outcome(&comp.create_new_stream(&path));
            }
            30..=41 => {
                expected = model.create_storage(&chain);
                actual = outcome(&comp.create_storage(&path));
                if actual.is_ok() && rng.chance(50) {
                    add_spine_with_model(&mut comp, &mut model, &chain);
                }
            }
            42..=47 => {
                expected = model.create_storage_all(&chain);
                actual = outcome(&comp.create_storage_all(&path));
            }
            48..=61 => {
                expected = model.remove_stream(&chain);
                actual = outcome(&comp.remove_stream(&path));
            }
            62..=71 => {
                expected = model.remove_storage(&chain);
                actual = outcome(&comp.remove_storage(&path));
            }
            72..=74 => {
                expected = model.remove_storage_all(&chain);
                actual = outcome(&comp.remove_storage_all(&path));
            }
            75..=80 => {
                let bits = rng.next() as u32;
                expected = match model.find_mut(&chain) {
                    Some(node) => {
                        node.bits = bits;
                        Ok(())
                    }
                    None => Err(Fail::NotFound),
                };
                actual = outcome(&comp.set_state_bits(&path, bits));
            }
            81..=88 => {
                // Rewrite an existing stream through open_stream.
                let node = model.find_mut(&chain);
                expected = match &node {
                    None => Err(Fail::NotFound),
                    Some(node) if !node.is_stream() => Err(Fail::Invalid),
                    Some(_) => Ok(()),
                };
                let result = comp.open_stream(&path);
                actual = outcome(&result);
                if let Ok(mut stream) = result {
                    let data = random_data(&mut rng);
                    stream.set_len(0).unwrap();
                    stream.write_all(&data).unwrap();
                    drop(stream);
                    node.unwrap().kind = Kind::Stream(data);
                }
            }
            89..=93 => {
                // A path that leaves the root is invalid, whatever follows.
                let path = format!("../{}", path.trim_start_matches('/'));
                let path =
                    if rng.chance(50) { format!("/{}", path) } else { path };
                assert!(!comp.exists(&path));
                assert!(!comp.is_stream(&path) && !comp.is_storage(&path));
                expected = Err(Fail::Invalid);
                actual = match rng.below(4) {
                    0 => outcome(&comp.create_stream(&path)),
                    1 => outcome(&comp.create_storage_all(&path)),
                    2 => outcome(&comp.remove_stream(&path)),
                    _ => outcome(&comp.entry(&path)),
                };
            }
            _ => {
                expected = match model.find(&chain) {
                    Some(_) => Ok(()),
                    None => Err(Fail::NotFound),
                };
                actual = outcome(&comp.entry(&path));
            }
        }
        assert_eq!(
            actual, expected,
            "seed {} step {}: {:?} (names {:?})",
            seed, step, path, chain
        );
        if actual.is_err() {
            assert!(
                file.snapshot() == before,
                "a refused call wrote something"
            );
        }
        check_model(&mut comp, &model, &pool, &mut rng, step % 8 == 0);
        if step % 5 == 0 {
            let mut probes = model.all_chains();
            for _ in 0..10 {
                probes.push(random_chain(&mut rng, &model, &pool));
            }
            check_against_bytes(&comp, &file.snapshot(), &probes);
        }
        if step % 20 == 19 {
            let bytes = file.snapshot();
            check_reopened(&bytes, &comp, &model, &pool, &mut rng);
            if rng.chance(40) {
                // Go on with the reopened image instead of the live object.
                drop(comp);
                file = SharedFile::new(bytes);
                comp = CompoundFile::open_strict(file.clone()).unwrap();
            }
        }
    }
}

#[test]
fn random_histories_match_model_v3() {
    for seed in 1..=6 {
        run_history(seed, Version::V3, 260);
    }
}

#[test]
fn random_histories_match_model_v4() {
    for seed in 101..=106 {
        run_history(seed, Version::V4, 260);
    }
}

//===========================================================================//
// Large, degenerate sibling trees (sorted insertion order).

#[test]
fn sorted_insertions_lookups_and_removals() {
    for version in [Version::V3, Version::V4] {
        let file = SharedFile::new(Vec::new());
        let mut comp =
            CompoundFile::create_with_version(version, file.clone()).unwrap();
        comp.create_storage("/Dir").unwrap();
        let count = 300;
        let name = |i: usize| format!("entry{:04}\u{e9}", i);
        for i in 0..count {
            comp.create_new_stream(format!("/dir/{}", name(i))).unwrap();
            // Looked up right away, under another spelling.
            assert!(comp.is_stream(format!("DIR/{}", name(i).to_uppercase())));
        }
        for round in 0..3 {
            for i in 0..count {
                let path = format!("/DIR/ENTRY{:04}\u{c9}", i);
                let present = i % 3 < 3 - round;
                assert_eq!(comp.exists(&path), present, "{} {}", round, path);
                if present {
                    assert_eq!(comp.entry(&path).unwrap().name(), name(i));
                }
            }
            // Remove one residue class, and look everything up again.
            for i in (0..count).filter(|i| i % 3 == 2 - round) {
                comp.remove_stream(format!("Dir/{}", name(i))).unwrap();
                assert!(!comp.exists(format!("Dir/{}", name(i))));
            }
            let listed: Vec<String> = comp
                .read_storage("/Dir")
                .unwrap()
                .map(|e| e.name().to_string())
                .collect();
            let expected: Vec<String> =
                (0..count).filter(|i| i % 3 < 2 - round).map(name).collect();
            assert_eq!(listed, expected);
            let chains: Vec<Vec<String>> =
                (0..count).map(|i| vec!["dir".to_string(), name(i)]).collect();
            check_against_bytes(&comp, &file.snapshot(), &chains);
        }
        comp.remove_storage("/dir").unwrap();
        assert!(!comp.exists("/dir"));
        assert!(!comp.exists(format!("/dir/{}", name(0))));
        CompoundFile::open_strict(Cursor::new(file.snapshot())).unwrap();
    }
}

//===========================================================================//
// Directory slots that are given to a new object must not keep the identity
// of the old one.

#[test]
fn reused_slots_are_not_found_under_old_names() {
    for (version, deep) in [
        (Version::V3, false),
        (Version::V4, false),
        (Version::V3, true),
        (Version::V4, true),
    ] {
        let file = SharedFile::new(Vec::new());
        let mut comp =
            CompoundFile::create_with_version(version, file.clone()).unwrap();
        let spine = |comp: &mut CompoundFile<SharedFile>, dir: &str| {
            if deep {
                add_spine(comp, dir);
            }
        };
        spine(&mut comp, "/");
        comp.create_storage("/A").unwrap();
        spine(&mut comp, "/A");
        comp.create_stream("/A/x").unwrap().write_all(b"old").unwrap();
        comp.create_stream("/A/y").unwrap();
        assert!(comp.exists("/a/X") && comp.exists("/a/Y"));
        comp.remove_stream("/A/x").unwrap();
        assert!(!comp.exists("/A/x") && comp.exists("/A/y"));
        comp.remove_stream("/A/y").unwrap();
        if deep {
            assert!(comp.exists(spine_path("/a", 3)));
            remove_spine(&mut comp, "/A");
        }
        comp.remove_storage("/A").unwrap();
        assert!(!comp.exists("/A") && !comp.exists("/A/x"));
        assert!(!comp.exists(spine_path("/A", 3)));
        // The free slots are handed out again.
        comp.create_storage("/B").unwrap();
        assert!(!comp.exists(spine_path("/B", 3)));
        spine(&mut comp, "/B");
        comp.create_stream("/B/x").unwrap().write_all(b"new").unwrap();
        comp.create_storage("/B/A").unwrap();
        assert!(!comp.exists("/A") && !comp.exists("/A/x"));
        assert!(comp.is_stream("/b/x") && comp.is_storage("/b/a"));
        assert!(!comp.exists("/b/a/x") && !comp.exists("/b/y"));
        comp.create_storage("/A").unwrap();
        assert!(comp.is_storage("/A") && !comp.exists("/A/x"));
        assert!(!comp.exists(spine_path("/A", 3)));
        spine(&mut comp, "/A");
        assert!(!comp.exists("/A/x") && !comp.exists("/A/y"));
        comp.create_storage("/A/x").unwrap();
        assert!(comp.is_storage("/a/x") && comp.is_stream("/b/x"));
        let mut data = String::new();
        comp.open_stream("/B/X").unwrap().read_to_string(&mut data).unwrap();
        assert_eq!(data, "new");
        // Overwriting keeps the object (and its spelling).
        comp.create_stream("/b/X").unwrap();
        assert_eq!(comp.entry("/B/x").unwrap().name(), "x");
        assert_eq!(comp.entry("/B/x").unwrap().len(), 0);
        let chains: Vec<Vec<String>> = [
            "A",
            "B",
            "A/x",
            "B/x",
            "B/A",
            "B/y",
            "zzzzzz03",
            "A/zzzzzz03",
            "B/A/zzzzzz03",
        ]
        .iter()
        .map(|p| p.split('/').map(String::from).collect())
        .collect();
        check_against_bytes(&comp, &file.snapshot(), &chains);
        CompoundFile::open_strict(Cursor::new(file.snapshot())).unwrap();
    }
}

//===========================================================================//
// Failing writes/seeks during insertions and removals: whatever state a
// failed call leaves behind, lookups and listings keep agreeing with each
// other, nothing panics, and calls that meet no fault behave as the listing
// before them predicts.

/// Rebuilds a namespace model (names and kinds only) from a listing.
fn model_from_listing(list: &[(String, String, bool, u64, u32)]) -> Node {
    let mut root = Node::root();
    for (path, _, is_stream, _, bits) in list.iter().skip(1) {
        let chain: Vec<String> =
            path[1..].split('/').map(String::from).collect();
        let kind = if *is_stream {
            Kind::Stream(Vec::new())
        } else {
            Kind::Storage(Vec::new())
        };
        // (After a failed removal an entry can be listed twice for a while.)
        if root.find(&chain).is_none() {
            root.insert(&chain, kind).unwrap();
            root.find_mut(&chain).unwrap().bits = *bits;
        }
    }
    root
}

/// True if nothing is listed twice (in the unchanged library a removal that
/// fails at a certain write leaves a subtree linked from two places; going on
/// to modify such a directory is outside what these tests claim anything
/// about, looking things up in it is not).
fn listing_is_clean<F>(comp: &CompoundFile<F>) -> bool {
    let list = listing(comp);
    list == model_from_listing(&list).preorder()
}

fn check_lookups_match_listing<F>(
    comp: &CompoundFile<F>,
    pool: &[String],
    rng: &mut Rng,
    clean: bool,
) -> Node {
    let list = listing(comp);
    let model = model_from_listing(&list);
    if clean {
        // The listing is in order and free of duplicates.
        assert_eq!(list, model.preorder());
    }
    for chain in model.all_chains() {
        let node = model.find(&chain).unwrap();
        let spelled: Vec<String> =
            chain.iter().map(|n| variant(rng, n)).collect();
        let path = canonical(&spelled);
        assert!(comp.exists(&path), "{:?} is listed but not found", path);
        assert_eq!(comp.is_stream(&path), node.is_stream());
        assert_eq!(comp.entry(&path).unwrap().name(), node.name);
        for name in pool {
            let mut probe = spelled.clone();
            probe.push(variant(rng, name));
            let expected = model.find(&probe);
            let path = canonical(&probe);
            assert_eq!(
                comp.exists(&path),
                expected.is_some(),
                "{:?}: lookup and listing disagree",
                path
            );
            if let Some(expected) = expected {
                assert_eq!(comp.entry(&path).unwrap().name(), expected.name);
                assert_eq!(comp.is_storage(&path), !expected.is_stream());
            }
        }
    }
    model
}

fn run_fault_history(seed: u64, version: Version, steps: usize) {
    let mut rng = Rng::new(seed);
    let pool: Vec<String> = (0..14)
        .map(|_| loop {
            let name = random_name(&mut rng);
            if name_is_valid(&name) {
                break name;
            }
        })
        .collect();
    let mut file = SharedFile::new(Vec::new());
    let mut comp =
        CompoundFile::create_with_version(version, file.clone()).unwrap();
    add_spine(&mut comp, "/");
    let mut faulted = 0;
    for step in 0..steps {
        if !listing_is_clean(&comp) {
            // Lookups still have to agree with the listing; then start over.
            check_lookups_match_listing(&comp, &pool, &mut rng, false);
            file = SharedFile::new(Vec::new());
            comp = CompoundFile::create_with_version(version, file.clone())
                .unwrap();
            if rng.chance(70) {
                add_spine(&mut comp, "/");
            }
        }
        let mut model =
            check_lookups_match_listing(&comp, &pool, &mut rng, true);
        let chain = random_chain(&mut rng, &model, &pool);
        let path = canonical(&chain);
        // The last fifth of the history runs without faults.
        let with_fault = step < steps * 4 / 5 && rng.chance(60);
        if with_fault {
            file.arm(
                rng.below(9) as u64,
                1 + rng.below(3) as u64,
                rng.chance(30),
            );
        }
        let roll = rng.below(100);
        let (expected, actual) = match roll {
            0..=29 => (
                model.create_stream(&chain, true),
                comp.create_stream(&path).map(Some),
            ),
            30..=39 => (
                model.create_stream(&chain, false),
                comp.create_new_stream(&path).map(Some),
            ),
            40..=54 => (
                model.create_storage(&chain),
                comp.create_storage(&path).map(|_| None),
            ),
            55..=59 => (
                model.create_storage_all(&chain),
                comp.create_storage_all(&path).map(|_| None),
            ),
            60..=79 => (
                model.remove_stream(&chain),
                comp.remove_stream(&path).map(|_| None),
            ),
            80..=93 => (
                model.remove_storage(&chain),
                comp.remove_storage(&path).map(|_| None),
            ),
            _ => (
                model.remove_storage_all(&chain),
                comp.remove_storage_all(&path).map(|_| None),
            ),
        };
        let hits = file.disarm();
        if std::env::var("FC_TRACE").is_ok() {
            eprintln!(
                "STEP {} {:?} hits {} ok {}",
                step,
                path,
                hits,
                actual.is_ok()
            );
        }
        // (A returned handle is dropped only now that faults are off.)
        let actual: io::Result<()> = actual.map(|_handle| ());
        if hits > 0 {
            faulted += 1;
            // A failure of the underlying file is reported by the call.
            assert!(actual.is_err(), "seed {} step {}: swallowed", seed, step);
        } else {
            assert_eq!(
                outcome(&actual),
                expected,
                "seed {} step {}: {:?}",
                seed,
                step,
                path
            );
            assert_eq!(listing(&comp), model.preorder());
            if (40..=54).contains(&roll) && actual.is_ok() && rng.chance(40) {
                // A new storage; let searches in it be long as well.
                for index in (0..SPINE).rev() {
                    let _ = comp.create_new_stream(spine_path(&path, index));
                }
            }
        }
    }
    assert!(faulted > steps / 20, "faults were hardly ever met");
    check_lookups_match_listing(&comp, &pool, &mut rng, false);
    let _ = comp.flush();
    // The image may be damaged by now, but reading it must stay harmless.
    if let Ok(reopened) = CompoundFile::open(Cursor::new(file.snapshot())) {
        let _ = listing(&reopened);
    }
}

/// Every position at which the underlying file can fail during one insertion
/// or removal, for the shapes of sibling tree that the code distinguishes.
#[test]
fn every_fault_position_in_one_directory_update() {
    // (names in insertion order, operation: -name removes, +name inserts)
    let cases: &[(&[&str], &str)] = &[
        (&["M"], "-M"),                                    // only child
        (&["M", "D", "T"], "-D"),                          // leaf
        (&["M", "D", "T"], "-M"), // predecessor = left child
        (&["M", "D", "B"], "-D"), // one child
        (&["M", "D", "T", "B"], "-M"), // ... with a left subtree
        (&["M", "D", "T", "F", "E"], "-M"), // deeper predecessor
        (&["M", "D", "T", "F", "B", "E", "G"], "-M"), // still deeper
        (&["R", "M", "D", "T", "F", "B", "E", "G"], "-M"), // below a sibling
        (&["M", "D", "T", "B", "F", "E"], "-D"),
        (&[], "+S"),
        (&["M"], "+S"),
        (&["M", "D"], "+E"),
        (&["M", "D", "T"], "+S"), // needs a new directory sector in version 3
        (&["M", "D", "T", "F", "B", "E"], "+G"),
    ];
    let mut rng = Rng::new(4242);
    let mut met = 0;
    for version in [Version::V3, Version::V4] {
        for (names, op) in cases {
            for (dir, deep) in [("/", false), ("/Dir/", true)] {
                {
                    // (How long the failure lasts makes no difference here:
                    // the call returns at the first error.)
                    let burst = 1;
                    for position in 0..400 {
                        let file = SharedFile::new(Vec::new());
                        let mut comp = CompoundFile::create_with_version(
                            version,
                            file.clone(),
                        )
                        .unwrap();
                        if dir != "/" {
                            comp.create_storage(dir).unwrap();
                        }
                        if deep {
                            add_spine(&mut comp, dir);
                        }
                        let mut pool: Vec<String> =
                            names.iter().map(|n| n.to_string()).collect();
                        for name in &pool {
                            let path = format!("{}{}", dir, name);
                            comp.create_new_stream(&path).unwrap();
                        }
                        pool.push(op[1..].to_string());
                        pool.push("Q".to_string());
                        pool.push(spine_name(0));
                        pool.push(spine_name(SPINE));
                        // Everything has been looked up before.
                        check_lookups_match_listing(
                            &comp, &pool, &mut rng, true,
                        );
                        let path = format!("{}{}", dir, &op[1..]);
                        let run = |comp: &mut CompoundFile<SharedFile>| {
                            if op.starts_with('-') {
                                comp.remove_stream(&path)
                            } else {
                                comp.create_storage(&path)
                            }
                        };
                        if std::env::var("FC_TRACE").is_ok() {
                            eprintln!(
                                "CASE {:?} {:?} {} {} burst {} pos {}",
                                version, names, op, dir, burst, position
                            );
                        }
                        file.arm(position, burst, false);
                        let result = run(&mut comp);
                        let hits = file.disarm();
                        assert_eq!(result.is_err(), hits > 0);
                        check_lookups_match_listing(
                            &comp,
                            &pool,
                            &mut rng,
                            hits == 0,
                        );
                        if hits == 0 {
                            // The call is over before this position.
                            assert_eq!(
                                comp.exists(&path),
                                op.starts_with('+')
                            );
                            break;
                        }
                        met += 1;
                        if !listing_is_clean(&comp) {
                            continue;
                        }
                        // Try again, then go on using the directory.
                        let _ = run(&mut comp);
                        check_lookups_match_listing(
                            &comp, &pool, &mut rng, false,
                        );
                        let other = format!("{}Q", dir);
                        let _ = comp.create_stream(&other).map(|_| ());
                        check_lookups_match_listing(
                            &comp, &pool, &mut rng, false,
                        );
                        let _ = comp.remove_stream(&other);
                        let _ = comp.remove_stream(format!("{}M", dir));
                        check_lookups_match_listing(
                            &comp, &pool, &mut rng, false,
                        );
                        assert!(position < 399, "the call never got through");
                    }
                }
            }
        }
    }
    assert!(met > 500);
}

#[test]
fn failed_directory_updates_keep_lookups_consistent() {
    for seed in 1..=12 {
        let version = if seed % 2 == 0 { Version::V3 } else { Version::V4 };
        run_fault_history(1000 + seed, version, 220);
    }
}

//===========================================================================//
// Read faults on a file that is only read: a lookup either fails or is right.

#[test]
fn read_faults_never_change_lookup_results() {
    let mut rng = Rng::new(77);
    let mut comp = CompoundFile::create(Cursor::new(Vec::new())).unwrap();
    comp.create_storage_all("/a/b").unwrap();
    for i in 0..20 {
        let path = format!("/a/b/s{}", i);
        comp.create_stream(&path).unwrap().write_all(&[i as u8; 100]).unwrap();
    }
    let bytes = comp.into_inner().into_inner();
    for round in 0..40 {
        let file = SharedFile::new(bytes.clone());
        file.arm(round as u64, 1 + rng.below(4) as u64, true);
        let comp = match CompoundFile::open(file.clone()) {
            Ok(comp) => comp,
            Err(_) => continue,
        };
        let mut comp = comp;
        for i in 0..20 {
            let path = format!("/A/B/S{}", i);
            assert!(comp.is_stream(&path));
            assert_eq!(comp.entry(&path).unwrap().len(), 100);
            let mut data = Vec::new();
            match comp.open_stream(&path).unwrap().read_to_end(&mut data) {
                Ok(_) => assert_eq!(data, vec![i as u8; 100]),
                Err(_) => {
                    data.clear();
                    comp.open_stream(&path)
                        .unwrap()
                        .read_to_end(&mut data)
                        .map(|_| assert_eq!(data, vec![i as u8; 100]))
                        .unwrap_or(());
                }
            }
        }
        assert!(!comp.exists("/a/b/s20"));
        file.disarm();
    }
}

//===========================================================================//
// Sibling trees that permissive open accepts although a search cannot reach
// every listed entry: lookups keep following the tree, exactly as the bytes
// say, before and after further insertions and removals.

fn patch_name(bytes: &mut [u8], old: &str, new: &str) {
    assert_eq!(utf16_len(old), utf16_len(new));
    let old_units: Vec<u16> = old.encode_utf16().collect();
    let mut patched = 0;
    for at in (512..bytes.len()).step_by(128) {
        let units = (le_u16(bytes, at + 64) / 2).saturating_sub(1);
        let kind = bytes[at + 66];
        if units != old_units.len() || (kind != 1 && kind != 2) {
            continue;
        }
        if (0..units).all(|i| le_u16(bytes, at + 2 * i) as u16 == old_units[i])
        {
            for (i, unit) in new.encode_utf16().enumerate() {
                bytes[at + 2 * i..at + 2 * i + 2]
                    .copy_from_slice(&unit.to_le_bytes());
            }
            patched += 1;
        }
    }
    assert_eq!(patched, 1, "expected exactly one entry named {:?}", old);
}

#[test]
fn unsearchable_trees_are_searched_as_before() {
    for (seed, version) in [
        (1u64, Version::V3),
        (2, Version::V4),
        (3, Version::V3),
        (4, Version::V4),
    ] {
        let mut rng = Rng::new(5000 + seed);
        let mut comp = CompoundFile::create_with_version(
            version,
            Cursor::new(Vec::new()),
        )
        .unwrap();
        // Insertion order fixes the shape of the root's tree:
        // M(C(-, D), R(P, S)), in the odd rounds at the far end of a spine.
        let deep = seed % 2 == 1;
        if deep {
            add_spine(&mut comp, "/");
        }
        for name in ["M", "C", "D", "R", "P"] {
            comp.create_stream(name).unwrap().write_all(b"abc").unwrap();
        }
        comp.create_storage("/S").unwrap();
        if deep {
            add_spine(&mut comp, "/S");
        }
        comp.create_stream("/S/K").unwrap();
        comp.create_stream("/S/B").unwrap();
        comp.create_storage("/S/T").unwrap();
        let mut bytes = comp.into_inner().into_inner();
        // D -> X sits left of M although X > M (a search cannot reach it), and
        // P -> c sits right of M although c < M (a hidden duplicate of C).
        // Neighbouring entries stay locally ordered, which is all that open
        // checks.  The tree of /S stays healthy.
        patch_name(&mut bytes, "D", "X");
        patch_name(&mut bytes, "P", "c");
        let file = SharedFile::new(bytes);
        let mut comp = CompoundFile::open(file.clone()).unwrap();
        let pool: Vec<String> =
            ["M", "C", "D", "R", "P", "X", "c", "S", "Q", "A", "K", "B", "T"]
                .iter()
                .map(|s| s.to_string())
                .collect();
        let probes = |rng: &mut Rng| -> Vec<Vec<String>> {
            let mut chains = Vec::new();
            for name in &pool {
                chains.push(vec![variant(rng, name)]);
                chains.push(vec!["s".to_string(), variant(rng, name)]);
                chains.push(vec!["S".into(), "t".into(), variant(rng, name)]);
            }
            chains
        };
        check_against_bytes(&comp, &file.snapshot(), &probes(&mut rng));
        // What the tree search says, spelled out once.
        assert!(
            !comp.exists("/X") && !comp.exists("/D") && !comp.exists("/P")
        );
        assert!(comp.exists("/C") && comp.exists("/c") && comp.exists("/S/k"));
        assert_eq!(comp.entry("/c").unwrap().name(), "C");
        let listed: Vec<String> =
            comp.read_root_storage().map(|e| e.name().to_string()).collect();
        let mut expected: Vec<String> = ["C", "X", "M", "c", "R", "S"]
            .iter()
            .map(|s| s.to_string())
            .collect();
        if deep {
            expected.extend((0..SPINE).map(spine_name));
        }
        assert_eq!(listed, expected);
        for _ in 0..150 {
            let picked = rng.pick(&pool).clone();
            let mut chain = vec![variant(&mut rng, &picked)];
            if rng.chance(40) {
                chain.insert(0, "S".to_string());
                if rng.chance(30) {
                    chain.insert(1, "T".to_string());
                }
            }
            let path = canonical(&chain);
            let result = match rng.below(5) {
                0 | 1 => comp.create_stream(&path).map(|_| ()),
                2 => comp.create_storage(&path),
                3 => comp.remove_stream(&path),
                _ => comp.remove_storage(&path),
            };
            if let Err(err) = &result {
                fail_of(err);
            }
            check_against_bytes(&comp, &file.snapshot(), &probes(&mut rng));
            let _ = listing(&comp);
        }
        if let Ok(reopened) = CompoundFile::open(Cursor::new(file.snapshot()))
        {
            check_against_bytes(
                &reopened,
                &file.snapshot(),
                &probes(&mut rng),
            );
        }
    }
}

//===========================================================================//
// Readers sharing the compound file while stream handles are used.

#[test]
fn concurrent_lookups_with_stream_io() {
    for version in [Version::V3, Version::V4] {
        let file = SharedFile::new(Vec::new());
        let mut comp =
            CompoundFile::create_with_version(version, file.clone()).unwrap();
        let mut expected: Vec<(String, bool)> = Vec::new();
        for d in 0..3 {
            let dir = format!("/dir{}", d);
            comp.create_storage(&dir).unwrap();
            expected.push((dir.clone(), false));
            for s in 0..12 {
                let path = format!("{}/stream{}\u{f6}", dir, s);
                comp.create_stream(&path)
                    .unwrap()
                    .write_all(&[7; 50])
                    .unwrap();
                expected.push((path, true));
            }
        }
        let mut small = comp.open_stream("/dir0/stream0\u{f6}").unwrap();
        let mut large = comp.open_stream("/dir2/stream11\u{f6}").unwrap();
        let comp = &comp;
        let expected = &expected;
        std::thread::scope(|scope| {
            for t in 0..3u64 {
                scope.spawn(move || {
                    let mut rng = Rng::new(900 + t);
                    for _ in 0..400 {
                        let (path, is_stream) = rng.pick(expected);
                        let spelled = if rng.chance(50) {
                            path.to_uppercase()
                        } else {
                            path.clone()
                        };
                        assert!(comp.exists(&spelled));
                        assert_eq!(comp.is_stream(&spelled), *is_stream);
                        assert_eq!(comp.is_storage(&spelled), !*is_stream);
                        let entry = comp.entry(&spelled).unwrap();
                        assert!(path.ends_with(entry.name()));
                        assert!(!comp.exists(format!("{}/nope", spelled)));
                        assert!(!comp.exists(format!("{}x", spelled)));
                        if !*is_stream {
                            assert_eq!(
                                comp.read_storage(&spelled).unwrap().count(),
                                12
                            );
                        }
                        if rng.chance(10) {
                            assert_eq!(comp.walk().count(), 1 + 3 * 13);
                        }
                    }
                });
            }
            let mut rng = Rng::new(17);
            for round in 0..150 {
                small.seek(SeekFrom::Start(rng.below(40) as u64)).unwrap();
                small.write_all(&[round as u8; 30]).unwrap();
                large.write_all(&[round as u8; 700]).unwrap();
                if round % 7 == 0 {
                    small.flush().unwrap();
                    large.flush().unwrap();
                }
                if round % 31 == 30 {
                    large.set_len(10).unwrap();
                    large.seek(SeekFrom::End(0)).unwrap();
                }
                let mut buf = [0u8; 16];
                small.seek(SeekFrom::Start(0)).unwrap();
                small.read_exact(&mut buf).unwrap();
            }
        });
        drop(small);
        drop(large);
        CompoundFile::open_strict(Cursor::new(file.snapshot())).unwrap();
    }
}
