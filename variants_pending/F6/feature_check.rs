//! Behavioural checks written for the chain I/O clean-up (chains transfer
//! across sector boundaries in one call; zero fills come from a static zero
//! block).  Everything here goes through the public API, so the file passes
//! on the library before and after that change.  Tests that print a line
//! starting with `DIGEST` summarise every observable result, the final image
//! and (where it says so) the exact sequence of operations on the underlying
//! file; run with `--nocapture` on both versions and compare the lines.

use cfb::{CompoundFile, OpenOptions, Version};
use std::collections::BTreeMap;
use std::io::{self, BufRead, Cursor, Read, Seek, SeekFrom, Write};
use std::panic::{catch_unwind, AssertUnwindSafe};
use std::sync::{Arc, Mutex};
use std::time::{Duration, UNIX_EPOCH};

//===========================================================================//
// A small deterministic PRNG and a hash.

#[derive(Clone)]
struct Rng(u64);

impl Rng {
    fn new(seed: u64) -> Rng {
        Rng(seed.wrapping_mul(0x9E37_79B9_7F4A_7C15) | 1)
    }

    fn next(&mut self) -> u64 {
        let mut x = self.0;
        x ^= x >> 12;
        x ^= x << 25;
        x ^= x >> 27;
        self.0 = x;
        x.wrapping_mul(0x2545_F491_4F6C_DD1D)
    }

    fn below(&mut self, n: u64) -> u64 {
        if n == 0 {
            0
        } else {
            (self.next() >> 11) % n
        }
    }

    fn chance(&mut self, num: u64, den: u64) -> bool {
        self.below(den) < num
    }

    /// Random bytes, none of them zero, so that a zero that should not be
    /// there (or a non-zero where zeros are due) is always visible.
    fn bytes(&mut self, len: usize) -> Vec<u8> {
        (0..len).map(|_| 1 + self.below(255) as u8).collect()
    }

    /// Lengths and offsets around every boundary that matters: mini sectors
    /// (64), sectors (512 and 4096), the mini stream cutoff (4096) and the
    /// 8 KiB block that `io::copy` uses.
    fn len(&mut self) -> usize {
        const EDGES: [usize; 20] = [
            0, 1, 63, 64, 65, 127, 128, 511, 512, 513, 1024, 4031, 4095, 4096,
            4097, 4160, 8191, 8192, 8193, 12288,
        ];
        match self.below(10) {
            0..=3 => EDGES[self.below(EDGES.len() as u64) as usize],
            4..=5 => self.below(200) as usize,
            6..=7 => self.below(5000) as usize,
            8 => 3900 + self.below(400) as usize,
            _ => self.below(20000) as usize,
        }
    }
}

fn fnv(hash: &mut u64, bytes: &[u8]) {
    for &byte in bytes {
        *hash ^= byte as u64;
        *hash = hash.wrapping_mul(0x0000_0100_0000_01B3);
    }
}

fn fnv_u64(hash: &mut u64, value: u64) {
    fnv(hash, &value.to_le_bytes());
}

const FNV_INIT: u64 = 0xCBF2_9CE4_8422_2325;

fn hash_of(bytes: &[u8]) -> u64 {
    let mut hash = FNV_INIT;
    fnv(&mut hash, bytes);
    hash
}

//===========================================================================//
// The underlying "file": an in-memory byte vector that stays reachable from
// the test while the compound file owns a handle to it, that can fail, chop
// up or interrupt transfers, and that keeps a digest of every call it gets.

const K_READ: u8 = 1;
const K_WRITE: u8 = 2;
const K_SEEK: u8 = 4;
const K_FLUSH: u8 = 8;
const K_ALL: u8 = 15;
/// With this flag, a read or write that is due to fail transfers nothing
/// and says so (`Ok(0)`) instead of returning an error.
const K_ZERO: u8 = 16;

struct Shared {
    bytes: Vec<u8>,
    /// Number of calls (of any kind) so far.
    ops: u64,
    /// Calls with an index at or after this one fail, if of a kind in
    /// `fail_kinds`, until `fail_count` of them have failed.
    fail_from: Option<u64>,
    fail_count: u64,
    fail_kinds: u8,
    fired: u64,
    /// If set, reads and writes are cut short and sometimes interrupted.
    chop: Option<Rng>,
    /// Digest of all calls and their arguments.
    trace: u64,
}

struct Backend {
    shared: Arc<Mutex<Shared>>,
    pos: u64,
}

fn injected() -> io::Error {
    io::Error::other("injected fault")
}

impl Backend {
    fn new(bytes: Vec<u8>) -> Backend {
        Backend {
            shared: Arc::new(Mutex::new(Shared {
                bytes,
                ops: 0,
                fail_from: None,
                fail_count: 0,
                fail_kinds: 0,
                fired: 0,
                chop: None,
                trace: FNV_INIT,
            })),
            pos: 0,
        }
    }

    /// Another handle to the same bytes, as a second `File` would be.
    fn handle(&self) -> Backend {
        Backend { shared: self.shared.clone(), pos: 0 }
    }

    fn snapshot(&self) -> Vec<u8> {
        self.shared.lock().unwrap().bytes.clone()
    }

    fn ops(&self) -> u64 {
        self.shared.lock().unwrap().ops
    }

    fn fired(&self) -> u64 {
        self.shared.lock().unwrap().fired
    }

    fn trace(&self) -> u64 {
        self.shared.lock().unwrap().trace
    }

    /// Forgets the calls so far (those that wrote clock readings).
    fn reset_trace(&self) {
        self.shared.lock().unwrap().trace = FNV_INIT;
    }

    fn chop(&self, seed: u64) {
        self.shared.lock().unwrap().chop = Some(Rng::new(seed));
    }

    /// Makes `count` calls of the given kinds fail, starting with the first
    /// such call whose index (counted from now) is at least `after`.
    fn arm(&self, after: u64, count: u64, kinds: u8) {
        let mut shared = self.shared.lock().unwrap();
        shared.fail_from = Some(shared.ops + after);
        shared.fail_count = count;
        shared.fail_kinds = kinds;
        shared.fired = 0;
    }

    fn disarm(&self) {
        self.shared.lock().unwrap().fail_from = None;
    }
}

impl Shared {
    /// Counts a call; returns whether it may go ahead (if not, it is to
    /// return `Ok(0)`) or the error it is to fail with.
    fn enter(&mut self, kind: u8) -> io::Result<bool> {
        let index = self.ops;
        self.ops += 1;
        if let Some(from) = self.fail_from {
            if index >= from
                && self.fired < self.fail_count
                && (self.fail_kinds & kind) != 0
            {
                self.fired += 1;
                if (self.fail_kinds & K_ZERO) != 0 {
                    return Ok(false);
                }
                return Err(injected());
            }
        }
        Ok(true)
    }

    /// How much of a transfer of `len` bytes to do now; `None` means that
    /// the call is interrupted instead.
    fn chopped(&mut self, len: usize) -> Option<usize> {
        match self.chop.as_mut() {
            None => Some(len),
            Some(rng) => {
                if rng.chance(1, 5) {
                    return None;
                }
                let cap = [1, 3, 7, 64, 100, 513, 5000][rng.below(7) as usize];
                Some(len.min(1 + rng.below(cap) as usize))
            }
        }
    }
}

impl Read for Backend {
    fn read(&mut self, buf: &mut [u8]) -> io::Result<usize> {
        let mut shared = self.shared.lock().unwrap();
        if !shared.enter(K_READ)? {
            return Ok(0);
        }
        let len = match shared.chopped(buf.len()) {
            Some(len) => len,
            None => return Err(io::ErrorKind::Interrupted.into()),
        };
        let start = (self.pos.min(shared.bytes.len() as u64)) as usize;
        let len = len.min(shared.bytes.len() - start);
        buf[..len].copy_from_slice(&shared.bytes[start..start + len]);
        let mut trace = shared.trace;
        fnv_u64(&mut trace, 0x1000 + buf.len() as u64);
        fnv_u64(&mut trace, self.pos);
        shared.trace = trace;
        self.pos += len as u64;
        Ok(len)
    }
}

impl Write for Backend {
    fn write(&mut self, buf: &[u8]) -> io::Result<usize> {
        let mut shared = self.shared.lock().unwrap();
        if !shared.enter(K_WRITE)? {
            return Ok(0);
        }
        let len = match shared.chopped(buf.len()) {
            Some(len) => len,
            None => return Err(io::ErrorKind::Interrupted.into()),
        };
        let start = self.pos as usize;
        if shared.bytes.len() < start + len {
            shared.bytes.resize(start + len, 0);
        }
        shared.bytes[start..start + len].copy_from_slice(&buf[..len]);
        let mut trace = shared.trace;
        fnv_u64(&mut trace, 0x2000 + buf.len() as u64);
        fnv_u64(&mut trace, self.pos);
        fnv(&mut trace, buf);
        shared.trace = trace;
        self.pos += len as u64;
        Ok(len)
    }

    fn flush(&mut self) -> io::Result<()> {
        let mut shared = self.shared.lock().unwrap();
        shared.enter(K_FLUSH)?;
        let mut trace = shared.trace;
        fnv_u64(&mut trace, 0x4000);
        shared.trace = trace;
        Ok(())
    }
}

impl Seek for Backend {
    fn seek(&mut self, pos: SeekFrom) -> io::Result<u64> {
        let mut shared = self.shared.lock().unwrap();
        shared.enter(K_SEEK)?;
        let new_pos = match pos {
            SeekFrom::Start(offset) => offset as i128,
            SeekFrom::Current(delta) => self.pos as i128 + delta as i128,
            SeekFrom::End(delta) => shared.bytes.len() as i128 + delta as i128,
        };
        if new_pos < 0 || new_pos > u64::MAX as i128 {
            return Err(io::Error::new(
                io::ErrorKind::InvalidInput,
                "seek out of range",
            ));
        }
        let mut trace = shared.trace;
        fnv_u64(&mut trace, 0x3000);
        fnv_u64(&mut trace, new_pos as u64);
        shared.trace = trace;
        self.pos = new_pos as u64;
        Ok(self.pos)
    }
}

//===========================================================================//
// The model: storages are fixed, streams are byte vectors.

type Tree = BTreeMap<String, Option<Vec<u8>>>;

const STREAM_PATHS: [&str; 8] =
    ["/s0", "/s1", "/s2", "/S3", "/dir/t0", "/dir/t1", "/dir/sub/u0", "/s4"];

#[derive(Clone, Default)]
struct Model {
    streams: BTreeMap<String, Vec<u8>>,
}

impl Model {
    fn tree(&self) -> Tree {
        let mut tree = Tree::new();
        for storage in ["/", "/dir", "/dir/sub"] {
            tree.insert(storage.to_string(), None);
        }
        for (path, data) in self.streams.iter() {
            tree.insert(path.clone(), Some(data.clone()));
        }
        tree
    }

    fn some_path(&self, rng: &mut Rng) -> Option<String> {
        if self.streams.is_empty() {
            return None;
        }
        let index = rng.below(self.streams.len() as u64) as usize;
        self.streams.keys().nth(index).cloned()
    }
}

/// Everything a compound file exposes: the paths of all objects and the
/// length and bytes of all streams.
fn tree_of<F: Read + Seek>(comp: &mut CompoundFile<F>) -> io::Result<Tree> {
    let entries: Vec<(String, bool, u64)> = comp
        .walk()
        .map(|entry| {
            (
                entry.path().to_str().unwrap().to_string(),
                entry.is_stream(),
                entry.len(),
            )
        })
        .collect();
    let mut tree = Tree::new();
    for (path, is_stream, len) in entries {
        if is_stream {
            let mut stream = comp.open_stream(&path)?;
            assert_eq!(stream.len(), len, "handle and entry length, {}", path);
            let mut data = Vec::new();
            stream.read_to_end(&mut data)?;
            assert_eq!(data.len() as u64, len, "bytes read from {}", path);
            tree.insert(path, Some(data));
        } else {
            tree.insert(path, None);
        }
    }
    Ok(tree)
}

fn same_tree(actual: &Tree, expected: &Tree, what: &str) {
    if actual == expected {
        return;
    }
    let actual_keys: Vec<&String> = actual.keys().collect();
    let expected_keys: Vec<&String> = expected.keys().collect();
    assert_eq!(actual_keys, expected_keys, "{}: objects differ", what);
    for (path, data) in expected.iter() {
        let (data, other) = match (data, &actual[path]) {
            (Some(data), Some(other)) => (data, other),
            (None, None) => continue,
            _ => panic!("{}: {} has the wrong type", what, path),
        };
        assert_eq!(other.len(), data.len(), "{}: length of {}", what, path);
        if let Some(at) = (0..data.len()).find(|&at| data[at] != other[at]) {
            panic!(
                "{}: {} differs at byte {} of {}: {} instead of {}",
                what,
                path,
                at,
                data.len(),
                other[at],
                data[at]
            );
        }
    }
}

/// C02: the bytes alone, with nothing flushed, reopen in both modes to the
/// state that the model predicts.
fn check_image(bytes: &[u8], model: &Model, what: &str) {
    let expected = model.tree();
    let mut permissive = CompoundFile::open(Cursor::new(bytes.to_vec()))
        .unwrap_or_else(|err| panic!("{}: permissive open: {}", what, err));
    let tree = tree_of(&mut permissive).unwrap();
    same_tree(&tree, &expected, &format!("{} (permissive)", what));
    let mut strict = CompoundFile::open_strict(Cursor::new(bytes.to_vec()))
        .unwrap_or_else(|err| panic!("{}: strict open: {}", what, err));
    let tree = tree_of(&mut strict).unwrap();
    same_tree(&tree, &expected, &format!("{} (strict)", what));
    assert_eq!(bytes.len() % permissive.version().sector_len(), 0);
}

fn pin_times(comp: &mut CompoundFile<Backend>, path: &str) {
    let time = UNIX_EPOCH + Duration::from_secs(1_000_000_000);
    comp.set_created_time(path, time).unwrap();
    comp.set_modified_time(path, time).unwrap();
}

fn new_file(
    version: Version,
    max_buf: usize,
    backend: &Backend,
) -> CompoundFile<Backend> {
    let mut comp =
        CompoundFile::create_with_version(version, backend.handle()).unwrap();
    comp.create_storage("/dir").unwrap();
    pin_times(&mut comp, "/dir");
    comp.create_storage("/dir/sub").unwrap();
    pin_times(&mut comp, "/dir/sub");
    drop(comp);
    reopen(max_buf, backend)
}

fn reopen(max_buf: usize, backend: &Backend) -> CompoundFile<Backend> {
    OpenOptions::new()
        .max_buffer_size(max_buf)
        .open_with(backend.handle())
        .unwrap()
}

//===========================================================================//
// Random histories of whole-stream and handle operations (C01, C02, C06,
// C07, C08, C10, C18).

struct Outcome {
    /// One number per observable result, in order.
    log: Vec<u64>,
    bytes: Vec<u8>,
    trace: u64,
}

fn write_in_pieces<W: Write>(writer: &mut W, data: &[u8], rng: &mut Rng) {
    let mut done = 0;
    while done < data.len() {
        let piece = (1 + rng.below(3000) as usize).min(data.len() - done);
        writer.write_all(&data[done..done + piece]).unwrap();
        done += piece;
    }
}

fn run_history(
    seed: u64,
    version: Version,
    max_buf: usize,
    steps: usize,
    backend: Backend,
    check_images: bool,
) -> Outcome {
    let mut rng = Rng::new(seed);
    let mut model = Model::default();
    let mut log = Vec::new();
    let mut comp = new_file(version, max_buf, &backend);
    backend.reset_trace();
    for step in 0..steps {
        let what = format!(
            "seed {} v{} buf {} step {}",
            seed,
            version.number(),
            max_buf,
            step
        );
        match rng.below(12) {
            0 | 1 => {
                // Create (or replace) a stream and fill it.
                let index = rng.below(STREAM_PATHS.len() as u64) as usize;
                let path = STREAM_PATHS[index].to_string();
                let len = rng.len();
                let data = rng.bytes(len);
                let mut stream = comp.create_stream(&path).unwrap();
                write_in_pieces(&mut stream, &data, &mut rng);
                if rng.chance(1, 2) {
                    stream.flush().unwrap();
                }
                assert_eq!(stream.len(), data.len() as u64, "{}", what);
                model.streams.insert(path, data);
            }
            2..=4 => {
                // Overwrite a range of a stream, maybe past its end.
                let path = match model.some_path(&mut rng) {
                    Some(path) => path,
                    None => continue,
                };
                let data = model.streams.get_mut(&path).unwrap();
                let start = match rng.below(3) {
                    0 => data.len(),
                    1 => rng.len().min(data.len()),
                    _ => rng.below(data.len() as u64 + 1) as usize,
                };
                let len = rng.len();
                let patch = rng.bytes(len);
                let mut stream = comp.open_stream(&path).unwrap();
                let whence = match rng.below(3) {
                    0 => SeekFrom::Start(start as u64),
                    1 => SeekFrom::End(start as i64 - data.len() as i64),
                    _ => SeekFrom::Current(start as i64),
                };
                assert_eq!(stream.seek(whence).unwrap(), start as u64);
                write_in_pieces(&mut stream, &patch, &mut rng);
                if data.len() < start + patch.len() {
                    data.resize(start + patch.len(), 0);
                }
                data[start..start + patch.len()].copy_from_slice(&patch);
                assert_eq!(stream.len(), data.len() as u64, "{}", what);
                if rng.chance(1, 2) {
                    // Read back through the same handle.
                    let from = rng.below(data.len() as u64 + 1) as usize;
                    stream.seek(SeekFrom::Start(from as u64)).unwrap();
                    let mut tail = Vec::new();
                    stream.read_to_end(&mut tail).unwrap();
                    assert_eq!(hash_of(&tail), hash_of(&data[from..]));
                    assert_eq!(&tail[..], &data[from..], "{}", what);
                }
                if rng.chance(1, 2) {
                    stream.flush().unwrap();
                }
            }
            5 | 6 => {
                // Resize a stream; the bytes gained must be zero (C08).
                let path = match model.some_path(&mut rng) {
                    Some(path) => path,
                    None => continue,
                };
                let data = model.streams.get_mut(&path).unwrap();
                let new_len = rng.len();
                let old_len = data.len();
                let mut stream = comp.open_stream(&path).unwrap();
                let position = rng.below(old_len as u64 + 1);
                stream.seek(SeekFrom::Start(position)).unwrap();
                stream.set_len(new_len as u64).unwrap();
                data.resize(new_len, 0);
                assert_eq!(stream.len(), new_len as u64, "{}", what);
                assert_eq!(
                    stream.stream_position().unwrap(),
                    position.min(new_len as u64),
                    "{}",
                    what
                );
                let from = old_len.min(new_len);
                let from = from - rng.below(from as u64 + 1).min(70) as usize;
                stream.seek(SeekFrom::Start(from as u64)).unwrap();
                let mut tail = Vec::new();
                stream.read_to_end(&mut tail).unwrap();
                assert_eq!(&tail[..], &data[from..], "{}", what);
            }
            7 | 8 => {
                // Read a range of a stream.
                let path = match model.some_path(&mut rng) {
                    Some(path) => path,
                    None => continue,
                };
                let data = &model.streams[&path];
                let start = rng.below(data.len() as u64 + 1) as usize;
                let len = rng.len().min(data.len() - start);
                let mut stream = comp.open_stream(&path).unwrap();
                stream.seek(SeekFrom::Start(start as u64)).unwrap();
                let mut buf = vec![0u8; len];
                stream.read_exact(&mut buf).unwrap();
                assert_eq!(&buf[..], &data[start..start + len], "{}", what);
                log.push(hash_of(&buf));
                if start + len == data.len() {
                    assert_eq!(stream.read(&mut [0u8; 9]).unwrap(), 0);
                }
            }
            9 => {
                // Remove a stream.
                let path = match model.some_path(&mut rng) {
                    Some(path) => path,
                    None => continue,
                };
                comp.remove_stream(&path).unwrap();
                model.streams.remove(&path);
                assert!(!comp.exists(&path), "{}", what);
            }
            10 => {
                // Two handles on different streams, interleaved (C07).
                let (first, second) = match (
                    model.some_path(&mut rng),
                    model.some_path(&mut rng),
                ) {
                    (Some(first), Some(second)) if first != second => {
                        (first, second)
                    }
                    _ => continue,
                };
                let mut one = comp.open_stream(&first).unwrap();
                let mut two = comp.open_stream(&second).unwrap();
                for _ in 0..4 {
                    for (path, stream) in
                        [(&first, &mut one), (&second, &mut two)]
                    {
                        let data = model.streams.get_mut(path).unwrap();
                        let start = rng.below(data.len() as u64 + 1) as usize;
                        stream.seek(SeekFrom::Start(start as u64)).unwrap();
                        if rng.chance(1, 2) {
                            let len = rng.len() / 2;
                            let patch = rng.bytes(len);
                            stream.write_all(&patch).unwrap();
                            if data.len() < start + patch.len() {
                                data.resize(start + patch.len(), 0);
                            }
                            data[start..start + patch.len()]
                                .copy_from_slice(&patch);
                        } else {
                            let len = rng.len().min(data.len() - start);
                            let mut buf = vec![0u8; len];
                            stream.read_exact(&mut buf).unwrap();
                            assert_eq!(
                                &buf[..],
                                &data[start..start + len],
                                "{}",
                                what
                            );
                        }
                        assert_eq!(stream.len(), data.len() as u64);
                    }
                }
                one.flush().unwrap();
                two.flush().unwrap();
            }
            _ => {
                // Calls that must be refused and change nothing (C10).
                let before = backend.snapshot();
                let kind = match model.some_path(&mut rng) {
                    Some(path) => {
                        let len = model.streams[&path].len() as u64;
                        let mut stream = comp.open_stream(&path).unwrap();
                        let position = rng.below(len + 1);
                        stream.seek(SeekFrom::Start(position)).unwrap();
                        let err =
                            stream.seek(SeekFrom::Start(len + 1)).unwrap_err();
                        assert_eq!(err.kind(), io::ErrorKind::InvalidInput);
                        let err = stream.seek(SeekFrom::End(1)).unwrap_err();
                        assert_eq!(err.kind(), io::ErrorKind::InvalidInput);
                        let err = stream
                            .seek(SeekFrom::Current(i64::MIN))
                            .unwrap_err();
                        assert_eq!(err.kind(), io::ErrorKind::InvalidInput);
                        assert_eq!(
                            stream.stream_position().unwrap(),
                            position
                        );
                        drop(stream);
                        comp.create_new_stream(&path).err().unwrap().kind()
                    }
                    None => comp.open_stream("/nope").err().unwrap().kind(),
                };
                log.push(kind as u64);
                assert!(comp.create_stream("/nope/x").is_err());
                assert!(comp.remove_stream("/dir").is_err());
                assert!(comp.open_stream("/dir").is_err());
                assert!(before == backend.snapshot(), "{}: bytes", what);
            }
        }
        // After every step: lengths through the directory, and now and then
        // the whole image and a switch to a reopened file.
        for (path, data) in model.streams.iter() {
            let entry = comp.entry(path).unwrap();
            assert!(entry.is_stream());
            assert_eq!(entry.len(), data.len() as u64, "{}: {}", what, path);
        }
        if check_images && (step % 4 == 3 || step + 1 == steps) {
            check_image(&backend.snapshot(), &model, &what);
        }
        if rng.chance(1, 12) {
            drop(comp);
            comp = reopen(max_buf, &backend);
        }
    }
    let tree = tree_of(&mut comp).unwrap();
    same_tree(&tree, &model.tree(), "final live tree");
    for data in model.streams.values() {
        log.push(hash_of(data));
    }
    Outcome { log, bytes: backend.snapshot(), trace: backend.trace() }
}

#[test]
fn histories_match_model_and_reopen() {
    let mut digest = FNV_INIT;
    let mut operations = FNV_INIT;
    for seed in 0..14 {
        for version in [Version::V3, Version::V4] {
            let mut first: Option<Outcome> = None;
            for max_buf in [0usize, 1500, 4096, 1 << 20] {
                let backend = Backend::new(Vec::new());
                let outcome = run_history(
                    seed,
                    version,
                    max_buf,
                    60,
                    backend,
                    max_buf == 1500,
                );
                fnv_u64(&mut digest, hash_of(&outcome.bytes));
                fnv_u64(&mut operations, outcome.trace);
                // C06, C18: the buffer size does not change the results (it
                // may change where things are put in the file).
                if let Some(first) = first.as_ref() {
                    assert!(first.log == outcome.log, "seed {}", seed);
                } else {
                    first = Some(outcome);
                }
            }
        }
    }
    println!("DIGEST histories (images) {:016x}", digest);
    println!("DIGEST histories (file operations) {:016x}", operations);
}

/// C18: however the underlying file splits or interrupts transfers, the
/// results and the image are the same; so are they on a real file.
#[test]
fn chopped_and_interrupted_transfers_change_nothing() {
    let mut operations = FNV_INIT;
    for seed in 100..112 {
        for version in [Version::V3, Version::V4] {
            let plain = run_history(
                seed,
                version,
                2048,
                50,
                Backend::new(Vec::new()),
                false,
            );
            let backend = Backend::new(Vec::new());
            backend.chop(seed);
            let chopped = run_history(seed, version, 2048, 50, backend, true);
            assert!(plain.log == chopped.log, "seed {}", seed);
            assert!(plain.bytes == chopped.bytes, "seed {}", seed);
            fnv_u64(&mut operations, chopped.trace);
        }
    }
    println!("DIGEST chopped transfers (file operations) {:016x}", operations);
}

#[test]
fn real_file_gives_the_same_image() {
    let mut path = std::env::temp_dir();
    path.push(format!("cfb-feature-check-{}.cfb", std::process::id()));
    let mut rng = Rng::new(77);
    let blocks: Vec<Vec<u8>> = [100, 4095, 4096, 9000, 64, 700]
        .iter()
        .map(|&n| rng.bytes(n))
        .collect();
    fn fill<F: Read + Write + Seek>(
        comp: &mut CompoundFile<F>,
        blocks: &[Vec<u8>],
    ) {
        for (index, block) in blocks.iter().enumerate() {
            let mut stream =
                comp.create_stream(format!("/s{}", index)).unwrap();
            stream.write_all(block).unwrap();
        }
        comp.remove_stream("/s1").unwrap();
        let mut stream = comp.open_stream("/s0").unwrap();
        stream.set_len(5000).unwrap();
        stream.set_len(70).unwrap();
        stream.set_len(130).unwrap();
        drop(stream);
        let mut stream = comp.open_stream("/s3").unwrap();
        stream.seek(SeekFrom::Start(4000)).unwrap();
        stream.write_all(&blocks[1]).unwrap();
        stream.flush().unwrap();
    }
    for version in [Version::V3, Version::V4] {
        let file = std::fs::OpenOptions::new()
            .read(true)
            .write(true)
            .create(true)
            .truncate(true)
            .open(&path)
            .unwrap();
        let mut on_disk =
            CompoundFile::create_with_version(version, file).unwrap();
        fill(&mut on_disk, &blocks);
        drop(on_disk);
        let mut in_memory = CompoundFile::create_with_version(
            version,
            Cursor::new(Vec::new()),
        )
        .unwrap();
        fill(&mut in_memory, &blocks);
        let expected = in_memory.into_inner().into_inner();
        let actual = std::fs::read(&path).unwrap();
        assert!(actual == expected, "v{}", version.number());
    }
    let _ = std::fs::remove_file(&path);
}

//===========================================================================//
// C06: a handle is a byte vector with a cursor, for every buffer size.

fn run_handle_history(
    seed: u64,
    version: Version,
    max_buf: usize,
) -> Vec<u64> {
    let mut rng = Rng::new(seed);
    let backend = Backend::new(Vec::new());
    let mut comp = new_file(version, max_buf, &backend);
    let mut other_data = rng.bytes(5000);
    comp.create_stream("/other").unwrap().write_all(&other_data).unwrap();
    let mut other = comp.open_stream("/other").unwrap();
    let mut stream = comp.create_stream("/dir/it").unwrap();
    let mut data: Vec<u8> = Vec::new();
    let mut pos: usize = 0;
    let mut log = Vec::new();
    for step in 0..500 {
        let what = format!("seed {} buf {} step {}", seed, max_buf, step);
        match rng.below(14) {
            0 | 1 => {
                // Plain read: some bytes, and none only at the end.
                // (How much one call transfers may depend on the buffer size,
                // so go on until a fixed amount is done.)
                let want = rng.len().min(data.len() - pos);
                let mut buf = vec![0u8; want];
                let mut done = 0;
                while done < want {
                    let count = stream.read(&mut buf[done..]).unwrap();
                    assert!(count > 0 && count <= want - done, "{}", what);
                    done += count;
                }
                assert_eq!(&buf[..], &data[pos..pos + want], "{}", what);
                pos += want;
                if pos == data.len() {
                    assert_eq!(stream.read(&mut [0u8; 5]).unwrap(), 0);
                }
            }
            2 | 3 => {
                // Read as much as asked for, or to the end.
                let want = rng.len().min(data.len() - pos + 3);
                let mut buf = Vec::new();
                Read::by_ref(&mut stream)
                    .take(want as u64)
                    .read_to_end(&mut buf)
                    .unwrap();
                let count = want.min(data.len() - pos);
                assert_eq!(&buf[..], &data[pos..pos + count], "{}", what);
                pos += count;
                log.push(hash_of(&buf));
            }
            4 => {
                let want = rng.len().min(data.len() - pos);
                let mut done = 0;
                loop {
                    let filled = stream.fill_buf().unwrap().to_vec();
                    let rest = &data[pos + done..];
                    assert!(filled.len() <= rest.len(), "{}", what);
                    assert!(!filled.is_empty() || rest.is_empty(), "{}", what);
                    assert_eq!(&filled[..], &rest[..filled.len()], "{}", what);
                    let used = filled.len().min(want - done);
                    stream.consume(used);
                    done += used;
                    if done == want {
                        break;
                    }
                }
                pos += want;
            }
            5..=7 => {
                let len = rng.len() / 2;
                let patch = rng.bytes(len);
                if rng.chance(1, 3) {
                    let mut done = 0;
                    while done < patch.len() {
                        let count = stream.write(&patch[done..]).unwrap();
                        assert!(count > 0, "{}", what);
                        assert!(count <= patch.len() - done, "{}", what);
                        done += count;
                        let len = stream.len();
                        assert_eq!(len, data.len().max(pos + done) as u64);
                    }
                    if data.len() < pos + patch.len() {
                        data.resize(pos + patch.len(), 0);
                    }
                    data[pos..pos + patch.len()].copy_from_slice(&patch);
                    pos += patch.len();
                } else {
                    stream.write_all(&patch).unwrap();
                    if data.len() < pos + patch.len() {
                        data.resize(pos + patch.len(), 0);
                    }
                    data[pos..pos + patch.len()].copy_from_slice(&patch);
                    pos += patch.len();
                }
            }
            8 | 9 => {
                let len = data.len() as i128;
                let extreme = rng.chance(1, 4);
                let (whence, target) = match rng.below(3) {
                    0 => {
                        let to = if extreme {
                            [u64::MAX, len as u64 + 1, 1 << 63]
                                [rng.below(3) as usize]
                        } else {
                            rng.below(len as u64 + 1)
                        };
                        (SeekFrom::Start(to), to as i128)
                    }
                    1 => {
                        let delta = if extreme {
                            [i64::MIN, i64::MAX, 1, -(len as i64) - 1]
                                [rng.below(4) as usize]
                        } else {
                            -(rng.below(len as u64 + 1) as i64)
                        };
                        (SeekFrom::End(delta), len + delta as i128)
                    }
                    _ => {
                        let delta = if extreme {
                            [i64::MIN, i64::MAX, len as i64 + 1]
                                [rng.below(3) as usize]
                        } else {
                            rng.below(len as u64 + 1) as i64 - pos as i64
                        };
                        (SeekFrom::Current(delta), pos as i128 + delta as i128)
                    }
                };
                match stream.seek(whence) {
                    Ok(new_pos) => {
                        assert!(target >= 0 && target <= len, "{}", what);
                        assert_eq!(new_pos as i128, target, "{}", what);
                        pos = new_pos as usize;
                    }
                    Err(err) => {
                        assert!(target < 0 || target > len, "{}", what);
                        assert_eq!(err.kind(), io::ErrorKind::InvalidInput);
                    }
                }
            }
            10 | 11 => {
                let new_len = rng.len();
                stream.set_len(new_len as u64).unwrap();
                data.resize(new_len, 0);
                pos = pos.min(new_len);
            }
            12 => stream.flush().unwrap(),
            _ => {
                // Meanwhile, another handle works on another stream (C07).
                let start = rng.below(other_data.len() as u64 + 1) as usize;
                other.seek(SeekFrom::Start(start as u64)).unwrap();
                let len = rng.below(300) as usize;
                let patch = rng.bytes(len);
                other.write_all(&patch).unwrap();
                if other_data.len() < start + patch.len() {
                    other_data.resize(start + patch.len(), 0);
                }
                other_data[start..start + patch.len()].copy_from_slice(&patch);
                if rng.chance(1, 2) {
                    other.flush().unwrap();
                }
            }
        }
        assert_eq!(stream.len(), data.len() as u64, "{}", what);
        assert_eq!(stream.stream_position().unwrap(), pos as u64, "{}", what);
        log.push(pos as u64);
        log.push(data.len() as u64);
    }
    drop(stream);
    drop(other);
    let mut model = Model::default();
    model.streams.insert("/dir/it".to_string(), data);
    model.streams.insert("/other".to_string(), other_data);
    check_image(&backend.snapshot(), &model, "handle history");
    log
}

#[test]
fn handle_is_a_byte_vector_with_a_cursor() {
    for seed in 200..212 {
        let mut first: Option<Vec<u64>> = None;
        for version in [Version::V3, Version::V4] {
            for max_buf in [0usize, 1025, 4096, 1 << 20] {
                let log = run_handle_history(seed, version, max_buf);
                if let Some(first) = first.as_ref() {
                    assert!(first == &log, "seed {} buf {}", seed, max_buf);
                } else {
                    first = Some(log);
                }
            }
        }
    }
}

//===========================================================================//
// C08: what a stream gains by growing reads as zero, whatever was there.

#[test]
fn grown_streams_read_zero() {
    for version in [Version::V3, Version::V4] {
        for &(old_len, cut_len, new_len) in [
            (4000usize, 10usize, 4095usize),
            (4000, 64, 200),
            (4000, 65, 4096),
            (4000, 0, 3000),
            (9000, 5000, 9000),
            (9000, 4097, 20000),
            (9000, 100, 4000),
            (9000, 100, 9000),
            (20000, 4096, 4608),
            (600, 1, 9000),
        ]
        .iter()
        {
            let backend = Backend::new(Vec::new());
            let mut comp = new_file(version, 4096, &backend);
            let mut rng = Rng::new(old_len as u64 + new_len as u64);
            let mut model = Model::default();
            // Neighbours whose space gets released and reused.
            for path in ["/s0", "/s1", "/s2"] {
                let mut stream = comp.create_stream(path).unwrap();
                stream.write_all(&rng.bytes(old_len)).unwrap();
            }
            let data = rng.bytes(old_len);
            let mut stream = comp.create_stream("/s4").unwrap();
            stream.write_all(&data).unwrap();
            comp.remove_stream("/s0").unwrap();
            comp.remove_stream("/s2").unwrap();
            stream.set_len(cut_len as u64).unwrap();
            stream.set_len(new_len as u64).unwrap();
            let mut expected = data[..cut_len].to_vec();
            expected.resize(new_len, 0);
            let mut actual = Vec::new();
            stream.seek(SeekFrom::Start(0)).unwrap();
            stream.read_to_end(&mut actual).unwrap();
            assert!(actual == expected, "{} {} {}", old_len, cut_len, new_len);
            // A brand new stream grown from nothing, over released space.
            let mut fresh = comp.create_stream("/s0").unwrap();
            fresh.set_len(new_len as u64).unwrap();
            drop(fresh);
            drop(stream);
            comp.remove_stream("/s1").unwrap();
            model.streams.insert("/s4".to_string(), expected);
            model.streams.insert("/s0".to_string(), vec![0; new_len]);
            same_tree(&tree_of(&mut comp).unwrap(), &model.tree(), "grown");
            check_image(&backend.snapshot(), &model, "grown");
        }
    }
}

//===========================================================================//
// C15: a cycle that returns to the same state stops growing the file.

#[test]
fn net_zero_cycles_do_not_grow_the_file() {
    for version in [Version::V3, Version::V4] {
        for &len in [50usize, 4095, 4096, 30000].iter() {
            let backend = Backend::new(Vec::new());
            let mut comp = new_file(version, 4096, &backend);
            let mut rng = Rng::new(len as u64);
            comp.create_stream("/s0")
                .unwrap()
                .write_all(&rng.bytes(777))
                .unwrap();
            let mut sizes = Vec::new();
            for _ in 0..5 {
                let mut stream = comp.create_stream("/dir/t0").unwrap();
                stream.write_all(&rng.bytes(len)).unwrap();
                stream.set_len(len as u64 / 2).unwrap();
                stream.set_len(len as u64 + 100).unwrap();
                drop(stream);
                comp.remove_stream("/dir/t0").unwrap();
                sizes.push(backend.snapshot().len());
            }
            assert!(
                sizes[1..].iter().all(|&size| size == sizes[1]),
                "v{} len {}: {:?}",
                version.number(),
                len,
                sizes
            );
        }
    }
}

//===========================================================================//
// C13: a failing write, seek or flush of the underlying file is reported by
// the call during which it happens, nothing panics afterwards, and a flush
// that says Ok means that the bytes are there.

/// Runs `call`; if the underlying file failed during it, it must not say Ok.
fn guarded<T>(
    backend: &Backend,
    outcomes: &mut Vec<u64>,
    what: &str,
    call: impl FnOnce() -> io::Result<T>,
) -> Option<T> {
    let before = backend.fired();
    let result = call();
    let failed = backend.fired() > before;
    match result {
        Ok(value) => {
            assert!(!failed, "{}: a failure was swallowed", what);
            outcomes.push(0);
            Some(value)
        }
        Err(err) => {
            outcomes.push(1 + err.kind() as u64);
            None
        }
    }
}

/// The scenario: every kind of chain traffic (mini chain, regular chain,
/// migration in both directions, zero fill, allocation of FAT, MiniFAT and
/// directory sectors).  Returns the number of underlying operations.
fn write_fault_scenario(
    version: Version,
    fault: Option<(u64, u64, u8)>,
    outcomes: &mut Vec<u64>,
) -> u64 {
    let backend = Backend::new(Vec::new());
    let mut comp = new_file(version, 2048, &backend);
    let mut rng = Rng::new(4242);
    let a_data = rng.bytes(3000);
    let b_data = rng.bytes(9000);
    comp.create_stream("/a").unwrap().write_all(&a_data).unwrap();
    comp.create_stream("/dir/b").unwrap().write_all(&b_data).unwrap();
    let start = backend.ops();
    backend.reset_trace();
    if let Some((after, count, kinds)) = fault {
        backend.arm(after, count, kinds);
    }
    let what = format!("v{} fault {:?}", version.number(), fault);

    // 1. Grow /a across the cutoff through a handle (mini -> regular).
    let patch = rng.bytes(2500);
    let mut accepted: Option<(u64, Vec<u8>)> = None;
    if let Some(mut stream) =
        guarded(&backend, outcomes, &what, || comp.open_stream("/a"))
    {
        let ok = guarded(&backend, outcomes, &what, || {
            stream.seek(SeekFrom::Start(2990))
        })
        .is_some()
            && guarded(&backend, outcomes, &what, || stream.write_all(&patch))
                .is_some();
        if ok {
            accepted = Some((2990, patch.clone()));
        }
        let mut flushed =
            guarded(&backend, outcomes, &what, || stream.flush()).is_some();
        if !flushed {
            // A second attempt; it may fail too, but must not lie.
            flushed = guarded(&backend, outcomes, &what, || stream.flush())
                .is_some();
        }
        if flushed {
            if let Some((at, bytes)) = accepted.as_ref() {
                // Read back by a fresh handle, with no faults in the way.
                let state = backend.shared.lock().unwrap().fail_from.take();
                let mut fresh = comp.open_stream("/a").unwrap();
                let mut buf = vec![0u8; bytes.len()];
                let read = fresh
                    .seek(SeekFrom::Start(*at))
                    .and_then(|_| fresh.read_exact(&mut buf));
                assert!(read.is_ok(), "{}: {:?}", what, read);
                assert!(&buf == bytes, "{}: flushed bytes are lost", what);
                outcomes.push(0);
                backend.shared.lock().unwrap().fail_from = state;
            }
        }
        // (The handle is dropped here; a drop cannot report anything.)
    }

    // 2. Grow /dir/b with set_len (zero fill of a regular chain).
    if let Some(mut stream) =
        guarded(&backend, outcomes, &what, || comp.open_stream("/dir/b"))
    {
        guarded(&backend, outcomes, &what, || stream.set_len(12345));
        guarded(&backend, outcomes, &what, || stream.flush());
    }

    // 3. A new mini stream, written in one go, then grown with set_len (zero
    //    fill of a mini chain), then pushed over the cutoff by set_len.
    let c_data = rng.bytes(1000);
    if let Some(mut stream) =
        guarded(&backend, outcomes, &what, || comp.create_stream("/dir/sub/c"))
    {
        guarded(&backend, outcomes, &what, || stream.write_all(&c_data));
        guarded(&backend, outcomes, &what, || stream.flush());
        guarded(&backend, outcomes, &what, || stream.set_len(100));
        guarded(&backend, outcomes, &what, || stream.set_len(3000));
        guarded(&backend, outcomes, &what, || stream.set_len(6000));
    }

    // 4. Shrink /dir/b below the cutoff (regular -> mini), remove /a, create
    //    many small streams (new directory and MiniFAT sectors).
    if let Some(mut stream) =
        guarded(&backend, outcomes, &what, || comp.open_stream("/dir/b"))
    {
        guarded(&backend, outcomes, &what, || stream.set_len(700));
    }
    guarded(&backend, outcomes, &what, || comp.remove_stream("/a"));
    for index in 0..6 {
        let path = format!("/n{}", index);
        let data = rng.bytes(500 + 700 * index);
        if let Some(mut stream) =
            guarded(&backend, outcomes, &what, || comp.create_stream(&path))
        {
            guarded(&backend, outcomes, &what, || stream.write_all(&data));
            guarded(&backend, outcomes, &what, || stream.flush());
        }
    }
    guarded(&backend, outcomes, &what, || comp.flush());
    let ops = backend.ops() - start;

    // Afterwards, with the fault gone: nothing panics or hangs, whatever
    // the calls return.
    backend.disarm();
    let paths: Vec<String> = comp
        .walk()
        .map(|entry| entry.path().to_str().unwrap().to_string())
        .collect();
    for path in paths.iter() {
        if let Ok(mut stream) = comp.open_stream(path) {
            let mut data = Vec::new();
            outcomes.push(stream.read_to_end(&mut data).is_ok() as u64);
            outcomes.push(stream.write_all(&[7u8; 100]).is_ok() as u64);
            outcomes.push(stream.flush().is_ok() as u64);
            outcomes.push(stream.set_len(5000).is_ok() as u64);
        }
    }
    outcomes.push(comp.create_stream("/late").is_ok() as u64);
    outcomes.push(comp.flush().is_ok() as u64);
    if fault.is_none() {
        let tree = tree_of(&mut comp).unwrap();
        assert_eq!(tree["/dir/b"].as_ref().unwrap().len(), 5000);
    }
    outcomes.push(hash_of(&backend.snapshot()));
    outcomes.push(backend.trace());
    ops
}

#[test]
fn write_failures_are_reported() {
    let mut digest = FNV_INIT;
    for version in [Version::V3, Version::V4] {
        let mut outcomes = Vec::new();
        let ops = write_fault_scenario(version, None, &mut outcomes);
        assert!(outcomes.iter().take(30).all(|&outcome| outcome == 0));
        assert!(ops > 300, "{}", ops);
        println!(
            "write fault scenario, v{}: {} operations",
            version.number(),
            ops
        );
        fnv_u64(&mut digest, ops);
        // The scenario takes tens of thousands of operations (a directory
        // entry alone is written field by field), so sample the positions:
        // one from each of many equal stretches.
        let mut rng = Rng::new(ops);
        let stretches = 500;
        for stretch in 0..stretches {
            let from = stretch * ops / stretches;
            let until = (stretch + 1) * ops / stretches;
            let after = from + rng.below(until - from);
            // One failure, of whatever operation comes next.
            let mut outcomes = Vec::new();
            write_fault_scenario(
                version,
                Some((after, 1, K_ALL)),
                &mut outcomes,
            );
            assert!(outcomes.iter().any(|&outcome| outcome > 1), "{}", after);
            for outcome in outcomes {
                fnv_u64(&mut digest, outcome);
            }
            if stretch % 4 != 0 {
                continue;
            }
            // From here on, every write fails (a full disk); or every seek.
            // Or every write transfers nothing; or a single one does.
            for (count, kinds) in [
                (u64::MAX, K_WRITE),
                (u64::MAX, K_SEEK),
                (u64::MAX, K_FLUSH | K_WRITE),
                (u64::MAX, K_ZERO | K_WRITE),
                (1, K_ZERO | K_WRITE),
            ] {
                let mut outcomes = Vec::new();
                write_fault_scenario(
                    version,
                    Some((after, count, kinds)),
                    &mut outcomes,
                );
                for outcome in outcomes {
                    fnv_u64(&mut digest, outcome);
                }
            }
        }
    }
    println!(
        "DIGEST write faults (results, images, file operations) {:016x}",
        digest
    );
}

//===========================================================================//
// C12: failing reads and seeks of the underlying file give errors, never
// wrong data, and the same handle keeps telling the truth afterwards.

fn sample_file(version: Version) -> (Vec<u8>, Model) {
    let backend = Backend::new(Vec::new());
    let mut comp = new_file(version, 4096, &backend);
    let mut rng = Rng::new(31337);
    let mut model = Model::default();
    // Interleaved growth, so that the chains are fragmented.
    let paths = ["/s0", "/s1", "/dir/t0", "/dir/sub/u0", "/s2"];
    let targets = [10000usize, 700, 4096, 3000, 64];
    for path in paths {
        comp.create_stream(path).unwrap();
        model.streams.insert(path.to_string(), Vec::new());
    }
    for round in 0..8 {
        for (path, &target) in paths.iter().zip(targets.iter()) {
            let data = model.streams.get_mut(*path).unwrap();
            let want = target * (round + 1) / 8;
            let more = rng.bytes(want - data.len());
            let mut stream = comp.open_stream(path).unwrap();
            stream.seek(SeekFrom::End(0)).unwrap();
            stream.write_all(&more).unwrap();
            data.extend_from_slice(&more);
        }
    }
    drop(comp);
    let bytes = backend.snapshot();
    check_image(&bytes, &model, "sample file");
    (bytes, model)
}

/// Returns the number of underlying operations of the fault-free part.
fn read_fault_scenario(
    bytes: &[u8],
    model: &Model,
    strict: bool,
    fault: Option<(u64, u64, u8)>,
    outcomes: &mut Vec<u64>,
) -> u64 {
    let backend = Backend::new(bytes.to_vec());
    if let Some((after, count, kinds)) = fault {
        backend.arm(after, count, kinds);
    }
    let options = OpenOptions::new().max_buffer_size(1024);
    let options = if strict { options.strict() } else { options };
    let mut comp = match options.open_with(backend.handle()) {
        Ok(comp) => comp,
        Err(_) => {
            assert!(backend.fired() > 0, "open failed without a fault");
            outcomes.push(99);
            return backend.ops();
        }
    };
    let expected = model.tree();
    let paths: Vec<String> = comp
        .walk()
        .map(|entry| entry.path().to_str().unwrap().to_string())
        .collect();
    assert_eq!(paths.len(), expected.len());
    let mut rng = Rng::new(5);
    let mut handles = Vec::new();
    for (path, data) in model.streams.iter() {
        assert_eq!(comp.entry(path).unwrap().len(), data.len() as u64);
        let mut stream = comp.open_stream(path).unwrap();
        // The whole stream, then some ranges; each call: error or truth.
        let mut all = Vec::new();
        match stream.read_to_end(&mut all) {
            Ok(count) => {
                assert!(
                    &all == data,
                    "{}: wrong bytes (fault {:?})",
                    path,
                    fault
                );
                assert_eq!(count, data.len());
                outcomes.push(0);
            }
            Err(err) => {
                // What did arrive must be a true prefix.
                assert!(data.starts_with(&all), "{}: wrong prefix", path);
                outcomes.push(1 + err.kind() as u64);
            }
        }
        for _ in 0..3 {
            let start = rng.below(data.len() as u64 + 1) as usize;
            let len = rng.len().min(data.len() - start);
            let mut buf = vec![0u8; len];
            let result = stream
                .seek(SeekFrom::Start(start as u64))
                .and_then(|_| stream.read_exact(&mut buf));
            match result {
                Ok(()) => {
                    assert!(buf[..] == data[start..start + len], "{}", path);
                    outcomes.push(0);
                }
                Err(err) => outcomes.push(1 + err.kind() as u64),
            }
        }
        handles.push((path.clone(), stream));
    }
    let ops = backend.ops();
    // The same handles again, after the fault (if it was a passing one).
    if let Some((_, count, _)) = fault {
        if count != u64::MAX {
            backend.disarm();
        }
    }
    for (path, mut stream) in handles {
        let data = &model.streams[&path];
        let from = rng.below(data.len() as u64 + 1) as usize;
        let mut tail = Vec::new();
        let result = stream
            .seek(SeekFrom::Start(from as u64))
            .and_then(|_| stream.read_to_end(&mut tail));
        match result {
            Ok(_) => {
                assert!(tail[..] == data[from..], "{}: after fault", path)
            }
            Err(_) => {
                assert!(matches!(fault, Some((_, u64::MAX, _))), "{}", path);
                assert!(data[from..].starts_with(&tail), "{}", path);
            }
        }
        outcomes.push(result.is_ok() as u64);
    }
    assert!(bytes == &backend.snapshot()[..], "a read-only file changed");
    outcomes.push(backend.trace());
    ops
}

#[test]
fn read_failures_never_give_wrong_data() {
    let mut digest = FNV_INIT;
    for version in [Version::V3, Version::V4] {
        let (bytes, model) = sample_file(version);
        for strict in [false, true] {
            let mut outcomes = Vec::new();
            let ops = read_fault_scenario(
                &bytes,
                &model,
                strict,
                None,
                &mut outcomes,
            );
            outcomes.pop();
            assert!(outcomes.iter().all(|&outcome| outcome <= 1));
            fnv_u64(&mut digest, ops);
            for after in 0..ops {
                // (With K_ZERO: the file seems to end there.)
                for (count, kinds) in [
                    (1, K_READ | K_SEEK),
                    (3, K_READ),
                    (u64::MAX, K_SEEK),
                    (1, K_ZERO | K_READ),
                    (u64::MAX, K_ZERO | K_READ),
                ] {
                    if count != 1 && after % 5 != 0 {
                        continue;
                    }
                    let mut outcomes = Vec::new();
                    read_fault_scenario(
                        &bytes,
                        &model,
                        strict,
                        Some((after, count, kinds)),
                        &mut outcomes,
                    );
                    for outcome in outcomes {
                        fnv_u64(&mut digest, outcome);
                    }
                }
            }
        }
    }
    println!("DIGEST read faults (results, file operations) {:016x}", digest);
}

//===========================================================================//
// C05, C11, C12: files that end early or are damaged.  Whatever is accepted
// must be usable without a panic; reads give errors, not invented bytes.

fn exercise(bytes: Vec<u8>, mutate: bool, outcomes: &mut Vec<u64>) {
    let backend = Backend::new(bytes);
    let mut comp = match OpenOptions::new()
        .max_buffer_size(1024)
        .open_with(backend.handle())
    {
        Ok(comp) => comp,
        Err(err) => {
            outcomes.push(1000 + err.kind() as u64);
            return;
        }
    };
    let entries: Vec<(String, bool, u64)> = comp
        .walk()
        .take(200)
        .map(|entry| {
            (
                entry.path().to_str().unwrap().to_string(),
                entry.is_stream(),
                entry.len(),
            )
        })
        .collect();
    for (path, is_stream, len) in entries.iter() {
        if !is_stream {
            continue;
        }
        let mut stream = match comp.open_stream(path) {
            Ok(stream) => stream,
            Err(err) => {
                outcomes.push(2000 + err.kind() as u64);
                continue;
            }
        };
        let mut data = Vec::new();
        match Read::by_ref(&mut stream).take(1 << 20).read_to_end(&mut data) {
            Ok(_) => outcomes.push(hash_of(&data)),
            Err(err) => outcomes.push(3000 + err.kind() as u64),
        }
        let _ = stream.seek(SeekFrom::Start(len / 2));
        let mut buf = [0u8; 100];
        match stream.read(&mut buf) {
            Ok(count) => outcomes.push(hash_of(&buf[..count])),
            Err(err) => outcomes.push(4000 + err.kind() as u64),
        }
        if mutate {
            let results = [
                stream.write_all(&[9u8; 300]).and_then(|_| stream.flush()),
                stream.set_len(len + 5000),
                stream.set_len(10),
                stream
                    .seek(SeekFrom::End(0))
                    .and_then(|_| stream.write_all(&[8u8; 4200]))
                    .and_then(|_| stream.flush()),
            ];
            for result in results.iter() {
                outcomes.push(match result {
                    Ok(()) => 0,
                    Err(err) => 5000 + err.kind() as u64,
                });
            }
        }
    }
    if mutate {
        let result = comp.create_stream("/fresh").and_then(|mut stream| {
            stream.write_all(&[5u8; 6000])?;
            stream.flush()
        });
        outcomes.push(result.is_ok() as u64);
        for (path, is_stream, _) in entries.iter() {
            if *is_stream {
                outcomes.push(comp.remove_stream(path).is_ok() as u64);
            }
        }
        outcomes.push(comp.flush().is_ok() as u64);
        outcomes.push(hash_of(&backend.snapshot()));
    }
    outcomes.push(backend.trace());
}

#[test]
fn truncated_and_damaged_files_do_not_panic() {
    let mut digest = FNV_INIT;
    let mut panics = Vec::new();
    for version in [Version::V3, Version::V4] {
        let (bytes, _) = sample_file(version);
        let sector_len = version.sector_len();
        let mut variants: Vec<(String, Vec<u8>)> = Vec::new();
        // Files that end early: in the middle of a sector, at a sector
        // boundary, for every possible number of sectors.
        let mut cut = bytes.len();
        while cut > sector_len {
            for less in [1, 63, sector_len / 2, sector_len] {
                let len = cut - less;
                variants
                    .push((format!("cut to {}", len), bytes[..len].to_vec()));
            }
            cut -= sector_len;
        }
        // Damaged allocation tables and directory entries.
        let mut rng = Rng::new(version.number() as u64);
        for round in 0..400 {
            let mut damaged = bytes.clone();
            for _ in 0..(1 + rng.below(3)) {
                // The FAT, directory and MiniFAT sectors come first.
                let sector = 1 + rng.below(6) as usize;
                let at = (sector * sector_len
                    + 4 * rng.below(sector_len as u64 / 4) as usize)
                    .min(damaged.len() - 4);
                let value: u32 = match rng.below(6) {
                    0 => 0xFFFF_FFFE,
                    1 => 0xFFFF_FFFF,
                    2 => 0,
                    3 => rng.below(40) as u32,
                    4 => 0xFFFF_FFFA,
                    _ => rng.next() as u32,
                };
                damaged[at..at + 4].copy_from_slice(&value.to_le_bytes());
            }
            variants.push((format!("damage round {}", round), damaged));
        }
        for (name, variant) in variants {
            for mutate in [false, true] {
                let mut outcomes = Vec::new();
                let result = catch_unwind(AssertUnwindSafe(|| {
                    exercise(variant.clone(), mutate, &mut outcomes)
                }));
                if result.is_err() {
                    panics.push(format!(
                        "v{} {} (mutate: {})",
                        version.number(),
                        name,
                        mutate
                    ));
                    outcomes.push(7777);
                }
                for outcome in outcomes {
                    fnv_u64(&mut digest, outcome);
                }
            }
        }
    }
    println!(
        "DIGEST damaged files (results, images, file operations) {:016x}",
        digest
    );
    assert!(panics.is_empty(), "panics: {:?}", panics);
}

//===========================================================================//
// C14: readers of the tree run alongside stream I/O.

#[test]
fn concurrent_readers_alongside_stream_io() {
    for version in [Version::V3, Version::V4] {
        let backend = Backend::new(Vec::new());
        let mut comp = new_file(version, 2048, &backend);
        let mut rng = Rng::new(9);
        let mut data = rng.bytes(20000);
        comp.create_stream("/s0").unwrap().write_all(&data).unwrap();
        comp.create_stream("/dir/t0")
            .unwrap()
            .write_all(&rng.bytes(100))
            .unwrap();
        let mut stream = comp.open_stream("/s0").unwrap();
        let shared = &comp;
        std::thread::scope(|scope| {
            for _ in 0..3 {
                scope.spawn(move || {
                    for _ in 0..300 {
                        let len = shared.entry("/s0").unwrap().len();
                        assert!(len == 20000 || len == 26000 || len == 3000);
                        assert!(shared.exists("/dir/t0"));
                        assert!(shared.is_stream("/s0"));
                        assert!(shared.is_storage("/dir/sub"));
                        assert_eq!(
                            shared.root_entry().path().to_str(),
                            Some("/")
                        );
                        assert_eq!(shared.walk().count(), 5);
                        assert_eq!(
                            shared.read_storage("/dir").unwrap().count(),
                            2
                        );
                    }
                });
            }
            for round in 0..60 {
                let new_len = [26000usize, 3000, 20000][round % 3];
                stream.set_len(new_len as u64).unwrap();
                data.resize(new_len, 0);
                let start = rng.below(new_len as u64) as usize;
                let patch = rng.bytes((new_len - start).min(2500));
                stream.seek(SeekFrom::Start(start as u64)).unwrap();
                stream.write_all(&patch).unwrap();
                stream.flush().unwrap();
                data[start..start + patch.len()].copy_from_slice(&patch);
                stream.seek(SeekFrom::Start(0)).unwrap();
                let mut all = Vec::new();
                stream.read_to_end(&mut all).unwrap();
                assert!(all == data);
            }
        });
    }
}
