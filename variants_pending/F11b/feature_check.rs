//! Behavioural checks for the management of directory slots (taking a free
//! slot for a new entry, giving the slot of a removed entry back, growing the
//! directory), written against the public API only.
//!
//! The tests compare the library with a simple in-memory model over random
//! histories, reopen the byte image (taken without flushing) in strict and
//! permissive mode, inspect the directory of the image with a small parser
//! that shares no code with the library, inject I/O failures at every
//! position of directory-changing calls, and feed in hand-made files whose
//! directories have gaps.

use cfb::{CompoundFile, Version};
use std::cell::{Cell, RefCell};
use std::collections::{BTreeMap, BTreeSet};
use std::io::{self, ErrorKind, Read, Seek, SeekFrom, Write};
use std::rc::Rc;
use std::time::{Duration, SystemTime, UNIX_EPOCH};
use uuid::Uuid;

//===========================================================================//
// A small deterministic PRNG.

#[derive(Clone)]
struct Rng(u64);

impl Rng {
    fn new(seed: u64) -> Rng {
        Rng(seed.wrapping_mul(0x9E37_79B9_7F4A_7C15) ^ 0xD1B5_4A32_D192_ED03)
    }
    fn next(&mut self) -> u64 {
        let mut x = self.0;
        x ^= x >> 12;
        x ^= x << 25;
        x ^= x >> 27;
        self.0 = x;
        x.wrapping_mul(0x2545_F491_4F6C_DD1D)
    }
    fn below(&mut self, n: usize) -> usize {
        ((self.next() >> 11) % (n as u64)) as usize
    }
    fn chance(&mut self, percent: usize) -> bool {
        self.below(100) < percent
    }
    fn bytes(&mut self, len: usize) -> Vec<u8> {
        (0..len).map(|_| (self.next() >> 24) as u8 | 1).collect()
    }
}

//===========================================================================//
// The underlying "file": shared bytes, so that the image can be looked at
// without flushing, plus switches for failures and for chunked transfers.

#[derive(Default)]
struct Ctl {
    /// Number of further seek/write/flush calls that succeed before one
    /// fails; `None` means that no failure is armed.
    countdown: Cell<Option<u64>>,
    /// Once a failure has been hit, keep failing until disarmed.
    sticky: Cell<bool>,
    failing: Cell<bool>,
    /// Whether reads count (and fail) as well.
    reads_too: Cell<bool>,
    hits: Cell<u32>,
    ops: Cell<u64>,
    /// Split transfers and interrupt calls pseudo-randomly.
    chunky: Cell<bool>,
    chunk_state: Cell<u64>,
}

#[derive(Clone)]
struct Shared {
    data: Rc<RefCell<Vec<u8>>>,
    ctl: Rc<Ctl>,
}

impl Shared {
    fn new(bytes: Vec<u8>) -> Shared {
        Shared {
            data: Rc::new(RefCell::new(bytes)),
            ctl: Rc::new(Ctl::default()),
        }
    }
    fn file(&self) -> SharedFile {
        SharedFile { shared: self.clone(), pos: 0 }
    }
    fn bytes(&self) -> Vec<u8> {
        self.data.borrow().clone()
    }
    fn arm(&self, countdown: u64, sticky: bool, reads_too: bool) {
        self.ctl.countdown.set(Some(countdown));
        self.ctl.sticky.set(sticky);
        self.ctl.reads_too.set(reads_too);
        self.ctl.failing.set(false);
    }
    fn disarm(&self) {
        self.ctl.countdown.set(None);
        self.ctl.failing.set(false);
    }
    fn hits(&self) -> u32 {
        self.ctl.hits.get()
    }
}

struct SharedFile {
    shared: Shared,
    pos: u64,
}

impl SharedFile {
    fn gate(&self) -> io::Result<()> {
        let ctl = &self.shared.ctl;
        ctl.ops.set(ctl.ops.get() + 1);
        if ctl.failing.get() {
            ctl.hits.set(ctl.hits.get() + 1);
            return Err(io::Error::other("injected failure (sticky)"));
        }
        if let Some(n) = ctl.countdown.get() {
            if n == 0 {
                ctl.hits.set(ctl.hits.get() + 1);
                if ctl.sticky.get() {
                    ctl.failing.set(true);
                } else {
                    ctl.countdown.set(None);
                }
                return Err(io::Error::other("injected failure"));
            }
            ctl.countdown.set(Some(n - 1));
        }
        Ok(())
    }

    /// For chunked mode: `Err(Interrupted)` now and then, otherwise the
    /// number of bytes to transfer (at least one).
    fn chunk(&self, want: usize) -> io::Result<usize> {
        let ctl = &self.shared.ctl;
        if !ctl.chunky.get() || want == 0 {
            return Ok(want);
        }
        let mut x = ctl.chunk_state.get() | 1;
        x ^= x << 13;
        x ^= x >> 7;
        x ^= x << 17;
        ctl.chunk_state.set(x);
        if x % 5 == 0 {
            return Err(io::Error::new(ErrorKind::Interrupted, "try again"));
        }
        Ok(1 + ((x >> 8) as usize) % want.min(7))
    }
}

impl Read for SharedFile {
    fn read(&mut self, buf: &mut [u8]) -> io::Result<usize> {
        if self.shared.ctl.reads_too.get() {
            self.gate()?;
        }
        let data = self.shared.data.borrow();
        let start = (self.pos as usize).min(data.len());
        let want = buf.len().min(data.len() - start);
        let n = self.chunk(want)?;
        buf[..n].copy_from_slice(&data[start..start + n]);
        self.pos += n as u64;
        Ok(n)
    }
}

impl Write for SharedFile {
    fn write(&mut self, buf: &[u8]) -> io::Result<usize> {
        self.gate()?;
        let n = self.chunk(buf.len())?;
        let mut data = self.shared.data.borrow_mut();
        let start = self.pos as usize;
        if data.len() < start + n {
            data.resize(start + n, 0);
        }
        data[start..start + n].copy_from_slice(&buf[..n]);
        self.pos += n as u64;
        Ok(n)
    }
    fn flush(&mut self) -> io::Result<()> {
        self.gate()
    }
}

impl Seek for SharedFile {
    fn seek(&mut self, pos: SeekFrom) -> io::Result<u64> {
        self.gate()?;
        let len = self.shared.data.borrow().len() as i128;
        let new_pos = match pos {
            SeekFrom::Start(p) => p as i128,
            SeekFrom::End(d) => len + d as i128,
            SeekFrom::Current(d) => self.pos as i128 + d as i128,
        };
        if new_pos < 0 {
            return Err(io::Error::new(ErrorKind::InvalidInput, "seek < 0"));
        }
        self.pos = new_pos as u64;
        Ok(self.pos)
    }
}

type Comp = CompoundFile<SharedFile>;

fn create(version: Version) -> (Comp, Shared) {
    let shared = Shared::new(Vec::new());
    let comp = CompoundFile::create_with_version(version, shared.file())
        .expect("create");
    (comp, shared)
}

fn open(bytes: Vec<u8>) -> (Comp, Shared) {
    let shared = Shared::new(bytes);
    let comp = CompoundFile::open(shared.file()).expect("open");
    (comp, shared)
}

//===========================================================================//
// The abstract model: a map from (upper-cased) name chains to nodes.

fn zero_time() -> SystemTime {
    // 1601-01-01, the CFB timestamp zero.
    UNIX_EPOCH - Duration::from_secs(11_644_473_600)
}

#[derive(Clone, Debug, PartialEq)]
struct Node {
    name: String,
    stream: bool,
    data: Vec<u8>,
    state: u32,
    clsid: Uuid,
    created: SystemTime,
    modified: SystemTime,
}

type Key = Vec<String>;

fn key_of(names: &[String]) -> Key {
    names.iter().map(|n| n.to_ascii_uppercase()).collect()
}

fn path_of(names: &[String]) -> String {
    format!("/{}", names.join("/"))
}

fn name_is_valid(name: &str) -> bool {
    name.encode_utf16().count() <= 31 && !name.contains(['/', '\\', ':', '!'])
}

#[derive(Clone, Debug, PartialEq)]
struct Model {
    nodes: BTreeMap<Key, Node>,
}

type Outcome = Result<(), ErrorKind>;

impl Model {
    fn new() -> Model {
        let mut nodes = BTreeMap::new();
        nodes.insert(
            Vec::new(),
            Node {
                name: "Root Entry".to_string(),
                stream: false,
                data: Vec::new(),
                state: 0,
                clsid: Uuid::nil(),
                created: zero_time(),
                modified: zero_time(),
            },
        );
        Model { nodes }
    }

    fn children(&self, key: &Key) -> Vec<Key> {
        let mut kids: Vec<Key> = self
            .nodes
            .keys()
            .filter(|k| k.len() == key.len() + 1 && k.starts_with(key))
            .cloned()
            .collect();
        // CFB order: shorter names first, then by upper-cased code units.
        kids.sort_by(|a, b| {
            let (a, b) = (a.last().unwrap(), b.last().unwrap());
            let ua: Vec<u16> = a.encode_utf16().collect();
            let ub: Vec<u16> = b.encode_utf16().collect();
            ua.len().cmp(&ub.len()).then(ua.cmp(&ub))
        });
        kids
    }

    fn display_path(&self, key: &Key) -> String {
        let names: Vec<String> = (1..=key.len())
            .map(|n| self.nodes[&key[..n].to_vec()].name.clone())
            .collect();
        path_of(&names)
    }

    fn preorder(&self) -> Vec<Item> {
        let mut out = Vec::new();
        let mut stack = vec![Vec::new()];
        while let Some(key) = stack.pop() {
            let node = &self.nodes[&key];
            out.push(Item {
                path: self.display_path(&key),
                name: node.name.clone(),
                stream: node.stream,
                data: node.data.clone(),
                state: node.state,
                clsid: node.clsid,
                created: node.created,
                modified: node.modified,
            });
            for kid in self.children(&key).into_iter().rev() {
                stack.push(kid);
            }
        }
        out
    }

    fn from_items(items: &[Item]) -> Model {
        let mut nodes = BTreeMap::new();
        for item in items {
            let names: Vec<String> = item
                .path
                .split('/')
                .filter(|s| !s.is_empty())
                .map(|s| s.to_string())
                .collect();
            nodes.insert(
                key_of(&names),
                Node {
                    name: item.name.clone(),
                    stream: item.stream,
                    data: item.data.clone(),
                    state: item.state,
                    clsid: item.clsid,
                    created: item.created,
                    modified: item.modified,
                },
            );
        }
        Model { nodes }
    }

    fn parent_is_storage(&self, key: &Key) -> bool {
        match self.nodes.get(&key[..key.len() - 1].to_vec()) {
            Some(parent) => !parent.stream,
            None => false,
        }
    }

    fn new_node(name: &str, stream: bool) -> Node {
        Node {
            name: name.to_string(),
            stream,
            data: Vec::new(),
            state: 0,
            clsid: Uuid::nil(),
            created: zero_time(),
            modified: zero_time(),
        }
    }

    fn create_stream(
        &mut self,
        names: &[String],
        data: &[u8],
        new: bool,
    ) -> Outcome {
        let key = key_of(names);
        if let Some(node) = self.nodes.get_mut(&key) {
            if !node.stream || new {
                return Err(ErrorKind::AlreadyExists);
            }
            node.data = data.to_vec();
            return Ok(());
        }
        if !self.parent_is_storage(&key) {
            return Err(ErrorKind::NotFound);
        }
        let name = names.last().unwrap();
        if !name_is_valid(name) {
            return Err(ErrorKind::InvalidInput);
        }
        let mut node = Model::new_node(name, true);
        node.data = data.to_vec();
        self.nodes.insert(key, node);
        Ok(())
    }

    fn create_storage(&mut self, names: &[String]) -> Outcome {
        let key = key_of(names);
        if self.nodes.contains_key(&key) {
            return Err(ErrorKind::AlreadyExists);
        }
        if !self.parent_is_storage(&key) {
            return Err(ErrorKind::NotFound);
        }
        let name = names.last().unwrap();
        if !name_is_valid(name) {
            return Err(ErrorKind::InvalidInput);
        }
        self.nodes.insert(key, Model::new_node(name, false));
        Ok(())
    }

    /// Returns the outcome and the name chains of the storages created
    /// (which stay even if a later component fails, as in the library).
    fn create_storage_all(
        &mut self,
        names: &[String],
    ) -> (Outcome, Vec<Vec<String>>) {
        let mut made = Vec::new();
        if names.iter().any(|n| !name_is_valid(n)) {
            return (Err(ErrorKind::InvalidInput), made);
        }
        for len in 1..=names.len() {
            let prefix = &names[..len];
            match self.nodes.get(&key_of(prefix)) {
                Some(node) if !node.stream => continue,
                Some(_) => return (Err(ErrorKind::AlreadyExists), made),
                None => {}
            }
            if let Err(kind) = self.create_storage(prefix) {
                return (Err(kind), made);
            }
            made.push(prefix.to_vec());
        }
        (Ok(()), made)
    }

    fn remove_stream(&mut self, names: &[String]) -> Outcome {
        let key = key_of(names);
        match self.nodes.get(&key) {
            None => Err(ErrorKind::NotFound),
            Some(node) if !node.stream => Err(ErrorKind::InvalidInput),
            Some(_) => {
                self.nodes.remove(&key);
                Ok(())
            }
        }
    }

    fn remove_storage(&mut self, names: &[String]) -> Outcome {
        let key = key_of(names);
        match self.nodes.get(&key) {
            None => Err(ErrorKind::NotFound),
            Some(node) if node.stream || key.is_empty() => {
                Err(ErrorKind::InvalidInput)
            }
            Some(_) => {
                if !self.children(&key).is_empty() {
                    return Err(ErrorKind::InvalidInput);
                }
                self.nodes.remove(&key);
                Ok(())
            }
        }
    }

    fn remove_storage_all(&mut self, names: &[String]) -> Outcome {
        let key = key_of(names);
        if !self.nodes.contains_key(&key) {
            return Err(ErrorKind::NotFound);
        }
        let doomed: Vec<Key> = self
            .nodes
            .keys()
            .filter(|k| k.starts_with(&key) && !k.is_empty())
            .cloned()
            .collect();
        for k in doomed {
            self.nodes.remove(&k);
        }
        Ok(())
    }
}

//===========================================================================//
// What the library shows, in the same form.

#[derive(Clone, Debug, PartialEq)]
struct Item {
    path: String,
    name: String,
    stream: bool,
    data: Vec<u8>,
    state: u32,
    clsid: Uuid,
    created: SystemTime,
    modified: SystemTime,
}

fn try_snapshot(comp: &mut Comp) -> io::Result<Vec<Item>> {
    let entries: Vec<cfb::Entry> = comp.walk().collect();
    let mut items = Vec::new();
    for entry in entries {
        let path = entry.path().to_str().unwrap().to_string();
        let mut data = Vec::new();
        if entry.is_stream() {
            let mut stream = comp.open_stream(&path)?;
            assert_eq!(stream.len(), entry.len(), "len of {}", path);
            stream.read_to_end(&mut data)?;
            assert_eq!(data.len() as u64, entry.len(), "bytes of {}", path);
        } else {
            if !entry.is_root() {
                assert_eq!(entry.len(), 0);
            }
            // The listing of a storage is its children in order.
            let listed: Vec<String> = comp
                .read_storage(&path)?
                .map(|e| e.path().to_str().unwrap().to_string())
                .collect();
            let walked: Vec<String> = comp
                .walk_storage(&path)?
                .skip(1)
                .map(|e| e.path().to_str().unwrap().to_string())
                .filter(|p| {
                    std::path::Path::new(p).parent()
                        == Some(std::path::Path::new(&path))
                })
                .collect();
            assert_eq!(listed, walked, "listing of {}", path);
        }
        items.push(Item {
            path,
            name: entry.name().to_string(),
            stream: entry.is_stream(),
            data,
            state: entry.state_bits(),
            clsid: *entry.clsid(),
            created: entry.created(),
            modified: entry.modified(),
        });
    }
    Ok(items)
}

fn snapshot(comp: &mut Comp) -> Vec<Item> {
    try_snapshot(comp).expect("snapshot")
}

/// For use after an injected failure: a stream at one of the given paths
/// (the object the failed call was about) may be unreadable; it is then left
/// out, and the second result is true.
fn snapshot_around(
    comp: &mut Comp,
    targets: &[&str],
) -> io::Result<(Vec<Item>, bool)> {
    let mut broken = Vec::new();
    for &target in targets {
        if comp.is_stream(target) {
            let mut data = Vec::new();
            let result = comp
                .open_stream(target)
                .and_then(|mut stream| stream.read_to_end(&mut data));
            if result.is_err() {
                broken.push(target);
            }
        }
    }
    if broken.is_empty() {
        return Ok((try_snapshot(comp)?, false));
    }
    Ok((Vec::new(), true))
}

fn assert_same(actual: &[Item], expected: &[Item], what: &str) {
    if actual != expected {
        let a: Vec<_> =
            actual.iter().map(|i| (&i.path, i.data.len())).collect();
        let e: Vec<_> =
            expected.iter().map(|i| (&i.path, i.data.len())).collect();
        for (x, y) in actual.iter().zip(expected.iter()) {
            if x != y {
                panic!(
                    "{}: first difference at {:?} vs {:?}\n{:?}\n{:?}",
                    what, x.path, y.path, a, e
                );
            }
        }
        panic!("{}: different number of objects\n{:?}\n{:?}", what, a, e);
    }
}

/// Lookups through the other read-only calls agree with the model too.
fn check_lookups(comp: &Comp, model: &Model, rng: &mut Rng) {
    for (key, node) in model.nodes.iter() {
        if key.is_empty() || !rng.chance(30) {
            continue;
        }
        // Any letter-case variant, with some decoration of the path.
        let mut path = String::new();
        for name in key.iter() {
            let variant = if rng.chance(50) {
                name.to_ascii_lowercase()
            } else {
                name.clone()
            };
            path.push_str(if rng.chance(20) { "/./" } else { "/" });
            path.push_str(&variant);
        }
        if rng.chance(20) {
            path.push('/');
        }
        assert!(comp.exists(&path), "exists {}", path);
        assert_eq!(comp.is_stream(&path), node.stream, "is_stream {}", path);
        assert_eq!(comp.is_storage(&path), !node.stream, "{}", path);
        let entry = comp.entry(&path).expect("entry");
        assert_eq!(entry.name(), node.name);
        assert_eq!(entry.len(), node.data.len() as u64);
        assert_eq!(entry.state_bits(), node.state);
    }
    assert!(!comp.exists("/no such thing"));
    assert_eq!(
        comp.entry("/no such thing").unwrap_err().kind(),
        ErrorKind::NotFound
    );
}

//===========================================================================//
// An independent look at the directory of a byte image.

struct RawDir {
    version: u16,
    header_num_dir_sectors: u32,
    dir_sectors: Vec<u32>,
    slots: Vec<Vec<u8>>,
}

fn le32(bytes: &[u8], at: usize) -> u32 {
    u32::from_le_bytes([
        bytes[at],
        bytes[at + 1],
        bytes[at + 2],
        bytes[at + 3],
    ])
}

fn parse_dir(bytes: &[u8]) -> RawDir {
    assert_eq!(&bytes[..8], &[0xD0, 0xCF, 0x11, 0xE0, 0xA1, 0xB1, 0x1A, 0xE1]);
    let version = u16::from_le_bytes([bytes[26], bytes[27]]);
    let shift = u16::from_le_bytes([bytes[30], bytes[31]]);
    assert!(version == 3 && shift == 9 || version == 4 && shift == 12);
    let sector_len = 1usize << shift;
    assert_eq!(bytes.len() % sector_len, 0, "whole number of sectors");
    let sector = |id: u32| {
        let start = (id as usize + 1) * sector_len;
        &bytes[start..start + sector_len]
    };
    // These tests never make a file that needs DIFAT sectors.
    assert_eq!(le32(bytes, 68), 0xFFFF_FFFE, "no DIFAT sectors expected");
    let num_fat_sectors = le32(bytes, 44) as usize;
    assert!(num_fat_sectors <= 109);
    let mut fat = Vec::new();
    for i in 0..num_fat_sectors {
        let fat_sector = sector(le32(bytes, 76 + 4 * i));
        for j in 0..sector_len / 4 {
            fat.push(le32(fat_sector, 4 * j));
        }
    }
    let mut dir_sectors = Vec::new();
    let mut slots = Vec::new();
    let mut current = le32(bytes, 48);
    while current != 0xFFFF_FFFE {
        assert!(!dir_sectors.contains(&current), "directory chain loops");
        dir_sectors.push(current);
        for chunk in sector(current).chunks(128) {
            slots.push(chunk.to_vec());
        }
        current = fat[current as usize];
    }
    RawDir {
        version,
        header_num_dir_sectors: le32(bytes, 40),
        dir_sectors,
        slots,
    }
}

impl RawDir {
    fn obj_type(&self, slot: usize) -> u8 {
        self.slots[slot][66]
    }
    fn name(&self, slot: usize) -> String {
        let raw = &self.slots[slot];
        let len = u16::from_le_bytes([raw[64], raw[65]]) as usize;
        let units: Vec<u16> = (0..(len / 2).saturating_sub(1))
            .map(|i| u16::from_le_bytes([raw[2 * i], raw[2 * i + 1]]))
            .collect();
        String::from_utf16(&units).unwrap()
    }
    fn links(&self, slot: usize) -> [u32; 3] {
        let raw = &self.slots[slot];
        [le32(raw, 68), le32(raw, 72), le32(raw, 76)]
    }
    /// The slots reachable from the root, each exactly once.
    fn reachable(&self) -> BTreeSet<usize> {
        let mut seen = BTreeSet::new();
        let mut stack = vec![0usize];
        while let Some(slot) = stack.pop() {
            assert!(seen.insert(slot), "slot {} is linked twice", slot);
            for link in self.links(slot) {
                if link != 0xFFFF_FFFF {
                    assert!((link as usize) < self.slots.len());
                    stack.push(link as usize);
                }
            }
        }
        seen
    }
    fn slot_of(&self, name: &str) -> Option<usize> {
        let reachable = self.reachable();
        let found: Vec<usize> = reachable
            .into_iter()
            .filter(|&s| s != 0 && self.name(s) == name)
            .collect();
        assert!(found.len() <= 1, "name {:?} is not unique", name);
        found.first().copied()
    }
    fn free_slots(&self) -> Vec<usize> {
        (0..self.slots.len()).filter(|&s| self.obj_type(s) == 0).collect()
    }

    /// The rules of MS-CFB for the directory, as far as slots go.
    fn check(&self, num_objects: usize) {
        if self.version == 4 {
            assert_eq!(
                self.header_num_dir_sectors as usize,
                self.dir_sectors.len(),
                "directory sector count in the header"
            );
        } else {
            assert_eq!(self.header_num_dir_sectors, 0);
        }
        let reachable = self.reachable();
        assert_eq!(reachable.len(), num_objects, "number of linked slots");
        assert_eq!(self.obj_type(0), 5);
        for slot in 0..self.slots.len() {
            let raw = &self.slots[slot];
            if reachable.contains(&slot) {
                if slot != 0 {
                    assert!(matches!(self.obj_type(slot), 1 | 2));
                }
                if self.obj_type(slot) == 2 {
                    assert!(raw[80..96].iter().all(|&b| b == 0), "CLSID");
                    assert!(raw[100..116].iter().all(|&b| b == 0), "times");
                    assert_eq!(self.links(slot)[2], 0xFFFF_FFFF);
                }
            } else {
                // Whatever is not linked must be an unallocated, blank slot.
                assert_eq!(self.obj_type(slot), 0, "slot {} is lost", slot);
                assert!(raw[..64].iter().all(|&b| b == 0), "name {}", slot);
                let name_len = u16::from_le_bytes([raw[64], raw[65]]);
                assert!(name_len == 0 || name_len == 2);
                assert_eq!(raw[67], 0);
                assert_eq!(self.links(slot), [0xFFFF_FFFF; 3]);
                assert!(raw[80..].iter().all(|&b| b == 0), "tail {}", slot);
            }
        }
    }
}

/// The image as it is now (nothing flushed) reopens in both modes to what
/// the live object shows, and its directory is well formed.
fn check_image(shared: &Shared, live: &[Item], what: &str) {
    let bytes = shared.bytes();
    parse_dir(&bytes).check(live.len());
    let mut permissive =
        CompoundFile::open(Shared::new(bytes.clone()).file()).expect(what);
    assert_same(&snapshot(&mut permissive), live, what);
    let mut strict =
        CompoundFile::open_strict(Shared::new(bytes).file()).expect(what);
    assert_same(&snapshot(&mut strict), live, what);
}

//===========================================================================//
// Operations.

#[derive(Clone, Debug)]
enum Op {
    CreateStream { names: Vec<String>, data: Vec<u8>, new: bool },
    CreateStorage { names: Vec<String> },
    CreateStorageAll { names: Vec<String> },
    RemoveStream { names: Vec<String> },
    RemoveStorage { names: Vec<String> },
    RemoveStorageAll { names: Vec<String> },
    SetState { names: Vec<String>, bits: u32 },
    SetClsid { names: Vec<String>, id: u128 },
    SetTimes { names: Vec<String>, secs: u64 },
    Resize { names: Vec<String>, len: usize },
    WriteAt { names: Vec<String>, pos_permille: usize, data: Vec<u8> },
}

fn pinned_time(secs: u64) -> SystemTime {
    UNIX_EPOCH + Duration::from_secs(1_000_000_000 + secs)
}

/// A time derived from the name chain, to pin the times of new storages.
fn time_for(names: &[String]) -> SystemTime {
    let sum: u64 = key_of(names)
        .iter()
        .flat_map(|n| n.bytes())
        .fold(7u64, |acc, b| acc.wrapping_mul(31).wrapping_add(b as u64));
    pinned_time(sum % 100_000)
}

fn kind_of<T>(result: &io::Result<T>) -> Outcome {
    match result {
        Ok(_) => Ok(()),
        Err(err) => Err(err.kind()),
    }
}

/// Gives a new storage pinned times, in the library and in the model, after
/// checking that the library stamped it with the current time.
fn pin_times(
    comp: &mut Comp,
    model: &mut Model,
    names: &[String],
    before: SystemTime,
) {
    let path = path_of(names);
    let after = SystemTime::now();
    let entry = comp.entry(&path).unwrap();
    let slack = Duration::from_micros(1);
    assert!(entry.created() + slack >= before && entry.created() <= after);
    assert_eq!(entry.created(), entry.modified());
    let time = time_for(names);
    comp.set_created_time(&path, time).unwrap();
    comp.set_modified_time(&path, time).unwrap();
    let node = model.nodes.get_mut(&key_of(names)).unwrap();
    node.created = time;
    node.modified = time;
}

/// Applies the operation to the library and to the model and checks that
/// they agree on the outcome; a refused call must not change a single byte.
fn apply(comp: &mut Comp, shared: &Shared, model: &mut Model, op: &Op) {
    let bytes_before = shared.bytes();
    let mut partial = false;
    let (expected, actual): (Outcome, Outcome) = match op {
        Op::CreateStream { names, data, new } => {
            let expected = model.create_stream(names, data, *new);
            let path = path_of(names);
            let result = if *new {
                comp.create_new_stream(&path)
            } else {
                comp.create_stream(&path)
            };
            let actual = kind_of(&result);
            if let Ok(mut stream) = result {
                assert_eq!(stream.len(), 0);
                stream.write_all(data).unwrap();
                stream.flush().unwrap();
            }
            (expected, actual)
        }
        Op::CreateStorage { names } => {
            let expected = model.create_storage(names);
            let before = SystemTime::now();
            let actual = kind_of(&comp.create_storage(path_of(names)));
            if actual.is_ok() && expected.is_ok() {
                pin_times(comp, model, names, before);
            }
            (expected, actual)
        }
        Op::CreateStorageAll { names } => {
            let (expected, made) = model.create_storage_all(names);
            let before = SystemTime::now();
            let actual = kind_of(&comp.create_storage_all(path_of(names)));
            if actual == expected {
                partial = !made.is_empty();
                for prefix in made.iter() {
                    pin_times(comp, model, prefix, before);
                }
            }
            (expected, actual)
        }
        Op::RemoveStream { names } => (
            model.remove_stream(names),
            kind_of(&comp.remove_stream(path_of(names))),
        ),
        Op::RemoveStorage { names } => (
            model.remove_storage(names),
            kind_of(&comp.remove_storage(path_of(names))),
        ),
        Op::RemoveStorageAll { names } => (
            model.remove_storage_all(names),
            kind_of(&comp.remove_storage_all(path_of(names))),
        ),
        Op::SetState { names, bits } => {
            let expected = match model.nodes.get_mut(&key_of(names)) {
                Some(node) => {
                    node.state = *bits;
                    Ok(())
                }
                None => Err(ErrorKind::NotFound),
            };
            (expected, kind_of(&comp.set_state_bits(path_of(names), *bits)))
        }
        Op::SetClsid { names, id } => {
            let id = Uuid::from_u128(*id);
            let expected = match model.nodes.get_mut(&key_of(names)) {
                Some(node) if node.stream => Err(ErrorKind::InvalidInput),
                Some(node) => {
                    node.clsid = id;
                    Ok(())
                }
                None => Err(ErrorKind::NotFound),
            };
            (expected, kind_of(&comp.set_storage_clsid(path_of(names), id)))
        }
        Op::SetTimes { names, secs } => {
            let time = pinned_time(*secs);
            let expected = match model.nodes.get_mut(&key_of(names)) {
                Some(node) => {
                    if !node.stream {
                        node.created = time;
                        node.modified = time;
                    }
                    Ok(())
                }
                None => Err(ErrorKind::NotFound),
            };
            let path = path_of(names);
            let first = kind_of(&comp.set_created_time(&path, time));
            let second = kind_of(&comp.set_modified_time(&path, time));
            assert_eq!(first, second);
            (expected, first)
        }
        Op::Resize { names, len } => {
            let expected = match model.nodes.get_mut(&key_of(names)) {
                Some(node) if node.stream => {
                    node.data.resize(*len, 0);
                    Ok(())
                }
                Some(_) => Err(ErrorKind::InvalidInput),
                None => Err(ErrorKind::NotFound),
            };
            let result = comp.open_stream(path_of(names));
            let actual = kind_of(&result);
            if let Ok(mut stream) = result {
                stream.set_len(*len as u64).unwrap();
                assert_eq!(stream.len(), *len as u64);
            }
            (expected, actual)
        }
        Op::WriteAt { names, pos_permille, data } => {
            let mut pos = 0;
            let expected = match model.nodes.get_mut(&key_of(names)) {
                Some(node) if node.stream => {
                    pos = node.data.len() * pos_permille / 1000;
                    if node.data.len() < pos + data.len() {
                        node.data.resize(pos + data.len(), 0);
                    }
                    node.data[pos..pos + data.len()].copy_from_slice(data);
                    Ok(())
                }
                Some(_) => Err(ErrorKind::InvalidInput),
                None => Err(ErrorKind::NotFound),
            };
            let result = comp.open_stream(path_of(names));
            let actual = kind_of(&result);
            if let Ok(mut stream) = result {
                stream.seek(SeekFrom::Start(pos as u64)).unwrap();
                stream.write_all(data).unwrap();
                stream.flush().unwrap();
            }
            (expected, actual)
        }
    };
    assert_eq!(actual, expected, "outcome of {:?}", op_summary(op));
    if actual.is_err() && !partial {
        assert!(
            shared.bytes() == bytes_before,
            "refused call changed the file: {:?}",
            op_summary(op)
        );
    }
}

fn op_summary(op: &Op) -> String {
    let text = format!("{:?}", op);
    text.chars().take(160).collect()
}

const NAMES: &[&str] = &[
    "a",
    "B",
    "cc",
    "Dd",
    "e1",
    "f",
    "G7",
    "hh",
    "I",
    "jjj",
    "K",
    "l0",
    "Mm",
    "n",
    "O",
    "p_p",
    "q",
    "RR",
    "s",
    "T",
    "u",
    "v2",
    "W",
    "xyz",
    "Y",
    "z",
    "a somewhat longer name, 31 unit",
    "with.dots.and spaces",
    "1",
    "22",
];

const BAD_NAMES: &[&str] =
    &["co:lon", "ba!ng", "back\\slash", "this name has thirty-two units.."];

fn some_name(rng: &mut Rng) -> String {
    let name = NAMES[rng.below(NAMES.len())];
    match rng.below(4) {
        0 => name.to_ascii_lowercase(),
        1 => name.to_ascii_uppercase(),
        _ => name.to_string(),
    }
}

fn existing(model: &Model, rng: &mut Rng, want_stream: Option<bool>) -> Key {
    let keys: Vec<&Key> = model
        .nodes
        .iter()
        .filter(|(k, n)| {
            !k.is_empty() && want_stream.map_or(true, |w| w == n.stream)
        })
        .map(|(k, _)| k)
        .collect();
    if keys.is_empty() {
        return vec![some_name(rng)];
    }
    let key = keys[rng.below(keys.len())];
    // In the spelling of the model or in another letter case.
    if rng.chance(50) {
        key.iter().map(|n| n.to_ascii_lowercase()).collect()
    } else {
        key.clone()
    }
}

fn new_path(model: &Model, rng: &mut Rng) -> Vec<String> {
    let storages: Vec<&Key> = model
        .nodes
        .iter()
        .filter(|(_, n)| !n.stream)
        .map(|(k, _)| k)
        .collect();
    let mut names = if rng.chance(90) {
        storages[rng.below(storages.len())].clone()
    } else if rng.chance(50) {
        existing(model, rng, Some(true)) // below a stream: refused
    } else {
        vec![some_name(rng), some_name(rng)] // probably a missing parent
    };
    if names.len() > 3 {
        names.truncate(3);
    }
    if rng.chance(3) {
        names.push(BAD_NAMES[rng.below(BAD_NAMES.len())].to_string());
    } else {
        names.push(some_name(rng));
    }
    names
}

fn data_len(rng: &mut Rng, big_data: bool) -> usize {
    if !big_data {
        return 0;
    }
    match rng.below(20) {
        0 => 0,
        1 => 64,
        2 => 4095,
        3 => 4096,
        4 => 4097 + rng.below(6000),
        5..=7 => 64 + rng.below(1000),
        _ => 1 + rng.below(200),
    }
}

/// `grow`: whether this phase of the history mostly creates or mostly
/// removes.  `big_data`: whether streams get contents at all.
fn random_op(model: &Model, rng: &mut Rng, grow: bool, big_data: bool) -> Op {
    let create_weight = if grow { 60 } else { 20 };
    let remove_weight = if grow { 15 } else { 55 };
    let roll = rng.below(100);
    if roll < create_weight {
        match rng.below(10) {
            0..=4 => {
                let names = if rng.chance(10) {
                    existing(model, rng, None) // overwrite, or refused
                } else {
                    new_path(model, rng)
                };
                let len = data_len(rng, big_data);
                Op::CreateStream {
                    names,
                    data: rng.bytes(len),
                    new: rng.chance(30),
                }
            }
            5..=7 => {
                let names = if rng.chance(8) {
                    existing(model, rng, None)
                } else {
                    new_path(model, rng)
                };
                Op::CreateStorage { names }
            }
            _ => {
                let mut names = new_path(model, rng);
                if rng.chance(50) {
                    names.push(some_name(rng));
                }
                Op::CreateStorageAll { names }
            }
        }
    } else if roll < create_weight + remove_weight {
        match rng.below(10) {
            0..=4 => Op::RemoveStream {
                names: if rng.chance(90) {
                    existing(model, rng, Some(true))
                } else {
                    existing(model, rng, None)
                },
            },
            5..=7 => Op::RemoveStorage {
                names: if rng.chance(90) {
                    existing(model, rng, Some(false))
                } else if rng.chance(50) {
                    Vec::new() // the root: refused
                } else {
                    new_path(model, rng)
                },
            },
            _ => Op::RemoveStorageAll {
                names: if rng.chance(3) {
                    Vec::new() // everything
                } else {
                    existing(model, rng, None)
                },
            },
        }
    } else {
        let names = if rng.chance(90) {
            existing(model, rng, None)
        } else if rng.chance(50) {
            Vec::new()
        } else {
            new_path(model, rng)
        };
        match rng.below(6) {
            0 => Op::SetState { names, bits: rng.next() as u32 },
            1 => Op::SetClsid { names, id: rng.next() as u128 * 0x1_0001 },
            2 => Op::SetTimes { names, secs: rng.below(1_000_000) as u64 },
            3 if big_data => Op::Resize {
                names: existing(model, rng, Some(true)),
                len: data_len(rng, true),
            },
            4 if big_data => {
                let len = 1 + rng.below(300);
                Op::WriteAt {
                    names: existing(model, rng, Some(true)),
                    pos_permille: rng.below(1001),
                    data: rng.bytes(len),
                }
            }
            _ => Op::SetState { names, bits: rng.next() as u32 },
        }
    }
}

fn history(seed: u64, steps: usize, big_data: bool) -> Vec<Op> {
    // The operations are generated against a model of their own, so that
    // the same list can be replayed on several files.
    let mut rng = Rng::new(seed);
    let mut model = Model::new();
    let phase = 25 + rng.below(40);
    let mut ops = Vec::new();
    for step in 0..steps {
        let grow = (step / phase) % 2 == 0;
        let op = random_op(&model, &mut rng, grow, big_data);
        apply_to_model_only(&mut model, &op);
        ops.push(op);
    }
    ops
}

fn apply_to_model_only(model: &mut Model, op: &Op) {
    match op {
        Op::CreateStream { names, data, new } => {
            let _ = model.create_stream(names, data, *new);
        }
        Op::CreateStorage { names } => {
            let _ = model.create_storage(names);
        }
        Op::CreateStorageAll { names } => {
            let _ = model.create_storage_all(names);
        }
        Op::RemoveStream { names } => {
            let _ = model.remove_stream(names);
        }
        Op::RemoveStorage { names } => {
            let _ = model.remove_storage(names);
        }
        Op::RemoveStorageAll { names } => {
            let _ = model.remove_storage_all(names);
        }
        _ => {}
    }
}

//===========================================================================//
// C01, C02, C03, C09, C10, C17: random histories against the model, with
// the image reopened and its directory inspected along the way.

fn run_history(version: Version, seed: u64, steps: usize, big_data: bool) {
    let ops = history(seed, steps, big_data);
    let (mut comp, shared) = create(version);
    let mut model = Model::new();
    let mut rng = Rng::new(seed ^ 0xABCD);
    let mut max_slots = 0;
    for (step, op) in ops.iter().enumerate() {
        apply(&mut comp, &shared, &mut model, op);
        let live = snapshot(&mut comp);
        let what = format!("{:?} seed {} step {}", version, seed, step);
        assert_same(&live, &model.preorder(), &what);
        if step % 7 == 0 || step + 1 == ops.len() {
            check_lookups(&comp, &model, &mut rng);
            check_image(&shared, &live, &what);
        }
        max_slots = max_slots.max(model.nodes.len());
    }
    // The directory never needs more slots than the largest number of
    // objects that existed at one time (rounded up to whole sectors).
    let raw = parse_dir(&shared.bytes());
    let per_sector = if version == Version::V3 { 4 } else { 32 };
    assert_eq!(
        raw.slots.len(),
        max_slots.div_ceil(per_sector) * per_sector,
        "directory is as long as its high-water mark needs"
    );
}

#[test]
fn random_histories_of_names_only() {
    for seed in 0..10 {
        run_history(Version::V3, seed, 300, false);
        run_history(Version::V4, 100 + seed, 300, false);
    }
}

#[test]
fn random_histories_with_stream_contents() {
    for seed in 0..6 {
        run_history(Version::V3, 200 + seed, 220, true);
        run_history(Version::V4, 300 + seed, 220, true);
    }
}

//===========================================================================//
// C02, C18: going on with the reopened image is the same as going on with
// the live object, down to the bytes; and so is running the history again.

fn replay(comp: &mut Comp, shared: &Shared, model: &mut Model, ops: &[Op]) {
    for op in ops {
        apply(comp, shared, model, op);
    }
}

#[test]
fn reopened_file_continues_like_the_live_one() {
    for version in [Version::V3, Version::V4] {
        for seed in 0..8u64 {
            // No stream contents: all sector allocation is for the directory
            // itself, so even the placement of sectors has to agree.
            let ops = history(1000 + seed, 260, false);
            let fork = 60 + 23 * seed as usize;
            let (mut live, live_shared) = create(version);
            let mut model = Model::new();
            replay(&mut live, &live_shared, &mut model, &ops[..fork]);
            let (mut reopened, reopened_shared) = open(live_shared.bytes());
            let mut model2 = model.clone();
            replay(&mut live, &live_shared, &mut model, &ops[fork..]);
            replay(&mut reopened, &reopened_shared, &mut model2, &ops[fork..]);
            assert_eq!(model, model2);
            assert_same(
                &snapshot(&mut live),
                &snapshot(&mut reopened),
                "fork",
            );
            assert!(
                live_shared.bytes() == reopened_shared.bytes(),
                "{:?} seed {}: images differ after the fork",
                version,
                seed
            );
            // A second run from scratch gives the same bytes again.
            let (mut again, again_shared) = create(version);
            let mut model3 = Model::new();
            replay(&mut again, &again_shared, &mut model3, &ops);
            assert!(again_shared.bytes() == live_shared.bytes());
        }
    }
}

#[test]
fn reopened_file_continues_like_the_live_one_with_contents() {
    // With contents the placement of data sectors may differ, but the
    // directory (which slot each object is in) and the logical state agree.
    for version in [Version::V3, Version::V4] {
        for seed in 0..5u64 {
            let ops = history(2000 + seed, 200, true);
            let fork = 50 + 30 * seed as usize;
            let (mut live, live_shared) = create(version);
            let mut model = Model::new();
            replay(&mut live, &live_shared, &mut model, &ops[..fork]);
            let (mut reopened, reopened_shared) = open(live_shared.bytes());
            let mut model2 = model.clone();
            replay(&mut live, &live_shared, &mut model, &ops[fork..]);
            replay(&mut reopened, &reopened_shared, &mut model2, &ops[fork..]);
            assert_same(
                &snapshot(&mut live),
                &snapshot(&mut reopened),
                "fork",
            );
            let raw1 = parse_dir(&live_shared.bytes());
            let raw2 = parse_dir(&reopened_shared.bytes());
            assert_eq!(raw1.slots.len(), raw2.slots.len());
            for slot in 0..raw1.slots.len() {
                assert_eq!(raw1.obj_type(slot), raw2.obj_type(slot));
                assert_eq!(raw1.name(slot), raw2.name(slot));
                assert_eq!(raw1.links(slot), raw2.links(slot));
            }
        }
    }
}

//===========================================================================//
// C18: the same history through a backend that splits and interrupts every
// transfer gives the same bytes.

#[test]
fn chunked_backend_gives_the_same_image() {
    for version in [Version::V3, Version::V4] {
        let ops = history(3000, 160, true);
        let (mut plain, plain_shared) = create(version);
        let mut model = Model::new();
        replay(&mut plain, &plain_shared, &mut model, &ops);

        let shared = Shared::new(Vec::new());
        shared.ctl.chunky.set(true);
        shared.ctl.chunk_state.set(0x1234_5678_9ABC_DEF1);
        let mut chunked =
            CompoundFile::create_with_version(version, shared.file()).unwrap();
        let mut model2 = Model::new();
        replay(&mut chunked, &shared, &mut model2, &ops);
        assert!(plain_shared.bytes() == shared.bytes());
        assert_same(&snapshot(&mut chunked), &model.preorder(), "chunked");
    }
}

//===========================================================================//
// C15: slots (and everything else) are reused, so cycles that come back to
// the same state do not make the file longer.

#[test]
fn net_zero_cycles_do_not_grow_the_file() {
    for version in [Version::V3, Version::V4] {
        let (mut comp, shared) = create(version);
        comp.create_storage("/keep").unwrap();
        comp.create_stream("/keep/me").unwrap().write_all(b"kept").unwrap();
        let mut sizes = Vec::new();
        for round in 0..5 {
            // Far more objects than one directory sector holds.
            for i in 0..75 {
                let dir = format!("/d{}", i % 5);
                if i < 5 {
                    comp.create_storage(&dir).unwrap();
                }
                let mut stream =
                    comp.create_stream(format!("{}/s{}", dir, i)).unwrap();
                let len = [0, 10, 64, 700, 4096, 5000][i % 6];
                stream.write_all(&vec![round as u8 + 1; len]).unwrap();
            }
            assert_eq!(comp.walk().count(), 1 + 2 + 5 + 75);
            for i in (0..75).rev() {
                comp.remove_stream(format!("/d{}/s{}", i % 5, i)).unwrap();
            }
            for i in 0..5 {
                comp.remove_storage(format!("/d{}", i)).unwrap();
            }
            sizes.push(shared.bytes().len());
            let live = snapshot(&mut comp);
            assert_eq!(live.len(), 3);
            check_image(&shared, &live, "after a cycle");
        }
        assert_eq!(sizes[1], sizes[2], "{:?} {:?}", version, sizes);
        assert_eq!(sizes[2], sizes[3], "{:?} {:?}", version, sizes);
        assert_eq!(sizes[3], sizes[4], "{:?} {:?}", version, sizes);

        // One object at a time: the same slot is used over and over.
        let raw = parse_dir(&shared.bytes());
        let first_free = raw.free_slots()[0];
        for i in 0..40 {
            let name = format!("cycle{}", i);
            comp.create_stream(&name).unwrap();
            let raw = parse_dir(&shared.bytes());
            assert_eq!(raw.slot_of(&name), Some(first_free));
            comp.remove_stream(&name).unwrap();
            assert_eq!(shared.bytes().len(), sizes[4]);
        }
    }
}

//===========================================================================//
// C07: handles stay on their stream while slots are freed and taken around
// them.

#[test]
fn open_handles_survive_slot_traffic() {
    for version in [Version::V3, Version::V4] {
        let (mut comp, shared) = create(version);
        for i in 0..6 {
            comp.create_stream(format!("/s{}", i))
                .unwrap()
                .write_all(format!("content {}", i).as_bytes())
                .unwrap();
        }
        let mut handle1 = comp.open_stream("/s1").unwrap();
        let mut handle4 = comp.open_stream("/s4").unwrap();
        comp.remove_stream("/s0").unwrap();
        comp.remove_stream("/s2").unwrap();
        comp.remove_stream("/s5").unwrap();
        for i in 0..9 {
            comp.create_storage(format!("/new{}", i)).unwrap();
            comp.create_stream(format!("/new{}/x", i))
                .unwrap()
                .write_all(&[i as u8; 100])
                .unwrap();
        }
        comp.remove_storage_all("/new3").unwrap();
        handle1.seek(SeekFrom::End(0)).unwrap();
        handle1.write_all(b" and more").unwrap();
        handle1.flush().unwrap();
        handle4.set_len(4).unwrap();
        comp.create_stream("/late").unwrap().write_all(b"late").unwrap();
        let mut text = String::new();
        handle4.seek(SeekFrom::Start(0)).unwrap();
        handle4.read_to_string(&mut text).unwrap();
        assert_eq!(text, "cont");
        drop(handle1);
        drop(handle4);
        let live = snapshot(&mut comp);
        let find = |path: &str| {
            live.iter().find(|i| i.path == path).unwrap().data.clone()
        };
        assert_eq!(find("/s1"), b"content 1 and more");
        assert_eq!(find("/s3"), b"content 3");
        assert_eq!(find("/s4"), b"cont");
        assert_eq!(find("/late"), b"late");
        assert_eq!(find("/new8/x"), vec![8u8; 100]);
        assert_eq!(live.len(), 1 + 3 + 8 * 2 + 1);
        check_image(&shared, &live, "handles");
    }
}

//===========================================================================//
// C04, C11: files written by somebody else, with entries in any slots and
// unallocated gaps between them.

fn raw_entry(
    name: &str,
    obj_type: u8,
    links: [u32; 3],
    start_sector: u32,
) -> Vec<u8> {
    let mut raw = vec![0u8; 128];
    let units: Vec<u16> = name.encode_utf16().collect();
    for (i, unit) in units.iter().enumerate() {
        raw[2 * i..2 * i + 2].copy_from_slice(&unit.to_le_bytes());
    }
    if obj_type != 0 {
        let len = (units.len() as u16 + 1) * 2;
        raw[64..66].copy_from_slice(&len.to_le_bytes());
    }
    raw[66] = obj_type;
    raw[67] = if obj_type == 0 { 0 } else { 1 }; // black
    for (i, link) in links.iter().enumerate() {
        raw[68 + 4 * i..72 + 4 * i].copy_from_slice(&link.to_le_bytes());
    }
    raw[116..120].copy_from_slice(&start_sector.to_le_bytes());
    raw
}

const NONE: u32 = 0xFFFF_FFFF;
const END: u32 = 0xFFFF_FFFE;

/// A version 3 file whose directory is in sectors 3 and 1 (in this order),
/// with the FAT in sector 2 and a free sector 0.  Slots: 0 root, 2 storage
/// "bb", 5 stream "a", 6 stream "ccc", 1 stream "x" inside "bb"; slots 3, 4
/// and 7 are unallocated.
fn foreign_file(garbage: bool) -> Vec<u8> {
    let mut bytes = vec![0u8; 512];
    bytes[..8]
        .copy_from_slice(&[0xD0, 0xCF, 0x11, 0xE0, 0xA1, 0xB1, 0x1A, 0xE1]);
    bytes[24..26].copy_from_slice(&0x3Eu16.to_le_bytes());
    bytes[26..28].copy_from_slice(&3u16.to_le_bytes());
    bytes[28..30].copy_from_slice(&0xFFFEu16.to_le_bytes());
    bytes[30..32].copy_from_slice(&9u16.to_le_bytes());
    bytes[32..34].copy_from_slice(&6u16.to_le_bytes());
    bytes[44..48].copy_from_slice(&1u32.to_le_bytes()); // FAT sectors
    bytes[48..52].copy_from_slice(&3u32.to_le_bytes()); // first dir sector
    bytes[56..60].copy_from_slice(&4096u32.to_le_bytes());
    bytes[60..64].copy_from_slice(&END.to_le_bytes()); // no MiniFAT
    bytes[68..72].copy_from_slice(&END.to_le_bytes()); // no DIFAT
    for i in 0..109 {
        let value = if i == 0 { 2 } else { NONE };
        bytes[76 + 4 * i..80 + 4 * i].copy_from_slice(&value.to_le_bytes());
    }
    let mut unallocated = raw_entry("", 0, [NONE; 3], 0);
    let mut orphan = unallocated.clone();
    if garbage {
        // Not blank, as a sloppy writer might leave it; and one slot that
        // holds a whole entry which nothing links to.
        unallocated = raw_entry("zz", 0, [NONE; 3], 77);
        unallocated[64..66].copy_from_slice(&6u16.to_le_bytes());
        unallocated[96..100].copy_from_slice(&0xDEAD_BEEFu32.to_le_bytes());
        unallocated[100..108].copy_from_slice(&[9; 8]);
        orphan = raw_entry("lost", 2, [NONE; 3], END);
    }
    let slots: Vec<Vec<u8>> = vec![
        raw_entry("Root Entry", 5, [NONE, NONE, 2], END),
        raw_entry("x", 2, [NONE; 3], END),
        raw_entry("bb", 1, [5, 6, 1], 0),
        unallocated.clone(),
        orphan,
        raw_entry("a", 2, [NONE; 3], END),
        raw_entry("ccc", 2, [NONE; 3], END),
        unallocated,
    ];
    let mut sectors = vec![vec![0u8; 512]; 4];
    sectors[3] = slots[..4].concat();
    sectors[1] = slots[4..].concat();
    let fat = [NONE, END, 0xFFFF_FFFD, 1];
    for i in 0..128 {
        let value = if i < 4 { fat[i] } else { NONE };
        sectors[2][4 * i..4 * i + 4].copy_from_slice(&value.to_le_bytes());
    }
    for sector in sectors {
        bytes.extend_from_slice(&sector);
    }
    bytes
}

#[test]
fn foreign_directory_with_gaps_is_read_and_filled() {
    let bytes = foreign_file(false);
    let expected_paths = ["/", "/bb", "/bb/x", "/a", "/ccc"];
    for strict in [false, true] {
        let shared = Shared::new(bytes.clone());
        let mut comp = if strict {
            CompoundFile::open_strict(shared.file()).unwrap()
        } else {
            CompoundFile::open(shared.file()).unwrap()
        };
        let live = snapshot(&mut comp);
        let paths: Vec<&str> = live.iter().map(|i| i.path.as_str()).collect();
        // "a" < "bb" < "ccc": but the walk is in pre-order below each.
        assert_eq!(paths, ["/", "/a", "/bb", "/bb/x", "/ccc"]);
        assert_eq!(paths.len(), expected_paths.len());
        let mut model = Model::from_items(&live);

        // New objects go into the gaps, lowest slot first, then the
        // directory grows by a sector (which reuses the free sector 0).
        let mut expected_slots = vec![3, 4, 7, 8, 9, 10, 11, 12];
        expected_slots.reverse();
        for i in 0..8 {
            let names = if i % 2 == 0 {
                vec!["bb".to_string(), format!("n{}", i)]
            } else {
                vec![format!("n{}", i)]
            };
            let op = if i % 3 == 0 {
                Op::CreateStorage { names: names.clone() }
            } else {
                Op::CreateStream {
                    names: names.clone(),
                    data: vec![],
                    new: true,
                }
            };
            apply(&mut comp, &shared, &mut model, &op);
            let raw = parse_dir(&shared.bytes());
            assert_eq!(
                raw.slot_of(names.last().unwrap()),
                expected_slots.pop(),
                "slot of the object number {}",
                i
            );
            let live = snapshot(&mut comp);
            assert_same(&live, &model.preorder(), "foreign");
            check_image(&shared, &live, "foreign");
        }
        let raw = parse_dir(&shared.bytes());
        assert_eq!(raw.dir_sectors, [3, 1, 0, 4]);
        assert_eq!(raw.slot_of("x"), Some(1));
        assert_eq!(raw.slot_of("ccc"), Some(6));

        // And a random history on top of it.
        let mut rng = Rng::new(77);
        for step in 0..150 {
            let op = random_op(&model, &mut rng, (step / 30) % 2 == 0, true);
            apply(&mut comp, &shared, &mut model, &op);
            let live = snapshot(&mut comp);
            assert_same(&live, &model.preorder(), "foreign, random");
            if step % 10 == 0 {
                check_image(&shared, &live, "foreign, random");
            }
        }
    }
}

#[test]
fn damaged_directory_slots_are_tolerated_and_repaired() {
    let shared = Shared::new(foreign_file(true));
    let mut comp = CompoundFile::open(shared.file()).unwrap();
    let live = snapshot(&mut comp);
    let paths: Vec<&str> = live.iter().map(|i| i.path.as_str()).collect();
    assert_eq!(paths, ["/", "/a", "/bb", "/bb/x", "/ccc"]);
    let mut model = Model::from_items(&live);
    // The two dirty unallocated slots are used (and overwritten completely);
    // the slot of the lost entry is never touched.
    let mut rng = Rng::new(5);
    for step in 0..200 {
        let op = random_op(&model, &mut rng, (step / 40) % 2 == 0, true);
        apply(&mut comp, &shared, &mut model, &op);
        let live = snapshot(&mut comp);
        assert_same(&live, &model.preorder(), "damaged");
        let bytes = shared.bytes();
        let raw = parse_dir(&bytes);
        assert_eq!(raw.name(4), "lost");
        assert_eq!(raw.obj_type(4), 2);
        assert_eq!(raw.reachable().len(), live.len());
        let mut again =
            CompoundFile::open(Shared::new(bytes).file()).expect("reopen");
        assert_same(&snapshot(&mut again), &live, "damaged, reopened");
    }
    // Fill the directory beyond every gap: no garbage survives in a slot
    // that has been used.
    for i in 0..12 {
        comp.create_storage(format!("/fill{}", i)).unwrap();
    }
    for i in 0..12 {
        comp.remove_storage(format!("/fill{}", i)).unwrap();
    }
    let raw = parse_dir(&shared.bytes());
    for slot in raw.free_slots() {
        assert!(raw.slots[slot][..64].iter().all(|&b| b == 0));
        assert!(raw.slots[slot][80..].iter().all(|&b| b == 0));
    }
}

//===========================================================================//
// C13 (and C11 in spirit): a failure of the underlying file at every
// position of a directory-changing call.

#[derive(Clone, Copy, Debug)]
enum Target {
    CreateEmptyStream,
    CreateStreamWithData,
    CreateStorage,
    RemoveStream,
    RemoveStorage,
}

/// A file with objects in three storages, gaps in the directory (V3: four
/// slots per sector), and - if `full` - no free slot at all, so that the
/// next new object makes the directory grow.
fn base_file(version: Version, full: bool) -> Vec<u8> {
    let (mut comp, shared) = create(version);
    let per_sector = if version == Version::V3 { 4 } else { 32 };
    comp.create_storage("/st").unwrap();
    comp.create_storage("/st/inner").unwrap();
    comp.create_stream("/st/victim").unwrap().write_all(b"victim").unwrap();
    comp.create_storage("/st/empty").unwrap();
    let mut count = 5;
    let mut i = 0;
    while count % per_sector != 0 || i < 6 {
        let mut stream =
            comp.create_stream(format!("/st/inner/f{}", i)).unwrap();
        stream.write_all(&vec![i as u8; 30 * i]).unwrap();
        count += 1;
        i += 1;
    }
    if !full {
        comp.remove_stream("/st/inner/f1").unwrap();
        comp.remove_stream("/st/inner/f4").unwrap();
    }
    for path in ["/st", "/st/inner", "/st/empty"] {
        comp.set_created_time(path, pinned_time(1)).unwrap();
        comp.set_modified_time(path, pinned_time(2)).unwrap();
    }
    comp.flush().unwrap();
    drop(comp);
    shared.bytes()
}

/// Runs the target call with a failure armed `position` calls ahead.
/// Returns whether the failure was hit.  Every API call during which a
/// failure was hit must have reported an error.
fn faulty_call(
    comp: &mut Comp,
    shared: &Shared,
    target: Target,
    position: u64,
    sticky: bool,
    reads_too: bool,
) -> (bool, bool) {
    let hits = || shared.hits();
    let start_hits = hits();
    shared.arm(position, sticky, reads_too);
    let mut all_ok = true;
    // Each step: run one API call, and check that it failed if the
    // underlying file failed during it.
    macro_rules! step {
        ($call:expr) => {{
            let before = hits();
            let result = $call;
            if hits() != before {
                assert!(result.is_err(), "a failure was swallowed");
            }
            if result.is_err() {
                all_ok = false;
            }
            result
        }};
    }
    match target {
        Target::CreateEmptyStream => {
            let _ = step!(comp.create_stream("/st/fresh"));
        }
        Target::CreateStreamWithData => {
            if let Ok(mut stream) =
                step!(comp.create_new_stream("/st/inner/big"))
            {
                if step!(stream.write_all(&[0xAB; 5000])).is_ok() {
                    let _ = step!(stream.flush());
                }
                // Dropping may try to flush again; that must not panic.
            }
        }
        Target::CreateStorage => {
            let _ = step!(comp.create_storage("/st/empty/deeper"));
        }
        Target::RemoveStream => {
            let _ = step!(comp.remove_stream("/st/victim"));
        }
        Target::RemoveStorage => {
            let _ = step!(comp.remove_storage("/st/empty"));
        }
    }
    let hit = hits() != start_hits;
    shared.disarm();
    (hit, all_ok)
}

fn fault_sweep(version: Version, full: bool, target: Target) {
    let base = base_file(version, full);
    for (sticky, reads_too) in [(false, false), (true, false), (false, true)] {
        // How many calls of the underlying file the target call makes.
        let total = {
            let shared = Shared::new(base.clone());
            let mut comp = CompoundFile::open(shared.file()).unwrap();
            let ops_before = shared.ctl.ops.get();
            let (hit, all_ok) = faulty_call(
                &mut comp,
                &shared,
                target,
                u64::MAX,
                false,
                reads_too,
            );
            assert!(!hit && all_ok);
            shared.ctl.ops.get() - ops_before
        };
        let mut position = 0;
        loop {
            // Every position near the start and near the end, and a sample
            // of the long runs in between (such as the 1500 or so writes which
            // initialise a new directory sector of a version 4 file).
            if position > 60 && position + 90 < total && position % 23 != 0 {
                position += 1;
                continue;
            }
            let shared = Shared::new(base.clone());
            let mut comp = CompoundFile::open(shared.file()).unwrap();
            let before = snapshot(&mut comp);
            let what = format!(
                "{:?} full={} {:?} position {} sticky={} reads={}",
                version, full, target, position, sticky, reads_too
            );
            let (hit, all_ok) = faulty_call(
                &mut comp, &shared, target, position, sticky, reads_too,
            );
            if !hit {
                // The whole call went through: it must have worked.
                assert!(all_ok, "{}", what);
                let live = snapshot(&mut comp);
                check_image(&shared, &live, &what);
                break;
            }

            // The live object is still usable and consistent with itself:
            // everything that was there before and is not the target is
            // unchanged.
            let target_paths = [
                "/st/fresh",
                "/st/inner/big",
                "/st/empty/deeper",
                "/st/victim",
                "/st/empty",
            ];
            let (after, broken) =
                snapshot_around(&mut comp, &target_paths).expect(&what);
            if broken {
                // The failed call has left its own object half done (say, a
                // stream whose sectors are freed already).  That is as far
                // as this test can follow.
                position += 1;
                continue;
            }
            let others = |items: &[Item]| -> Vec<Item> {
                items
                    .iter()
                    .filter(|i| !target_paths.contains(&i.path.as_str()))
                    .cloned()
                    .collect()
            };
            assert_same(&others(&after), &others(&before), &what);

            // Try the same call again, now without failures.  It may be
            // refused (if the first attempt got far enough), but whatever
            // it says, the object then is in the state asked for.
            let (hit2, retry_ok) = faulty_call(
                &mut comp,
                &shared,
                target,
                u64::MAX,
                false,
                false,
            );
            assert!(!hit2);
            let (path, wanted) = match target {
                Target::CreateEmptyStream => ("/st/fresh", true),
                Target::CreateStreamWithData => ("/st/inner/big", true),
                Target::CreateStorage => ("/st/empty/deeper", true),
                Target::RemoveStream => ("/st/victim", false),
                Target::RemoveStorage => ("/st/empty", false),
            };
            if retry_ok {
                assert_eq!(comp.exists(path), wanted, "{}", what);
            }

            // Go on working with the object: it keeps agreeing with a model
            // that starts from what it shows now.
            let (start, broken) =
                snapshot_around(&mut comp, &target_paths).expect(&what);
            if broken {
                position += 1;
                continue;
            }
            let mut model = Model::from_items(&start);
            let mut rng = Rng::new(position * 31 + 7);
            for step in 0..14 {
                let op = random_op(&model, &mut rng, step < 9, true);
                apply_lenient(&mut comp, &shared, &mut model, &op, &what);
                let live = try_snapshot(&mut comp).expect(&what);
                assert_same(&live, &model.preorder(), &what);
            }
            // The image may or may not reopen after a failed write (the
            // failed call left it incomplete), but looking must not panic.
            if let Ok(mut reopened) =
                CompoundFile::open(Shared::new(shared.bytes()).file())
            {
                let _ = try_snapshot(&mut reopened);
            }
            position += 1;
            assert!(position < 5000, "the call never finishes?");
        }
    }
}

/// Like `apply`, without the byte comparison for refused calls (after a
/// failure the comparison with the model is what matters).
fn apply_lenient(
    comp: &mut Comp,
    shared: &Shared,
    model: &mut Model,
    op: &Op,
    what: &str,
) {
    let result =
        std::panic::catch_unwind(std::panic::AssertUnwindSafe(|| {
            apply(comp, shared, model, op)
        }));
    if let Err(panic) = result {
        eprintln!("while continuing after: {}", what);
        std::panic::resume_unwind(panic);
    }
}

#[test]
fn failures_while_creating_a_stream() {
    for version in [Version::V3, Version::V4] {
        for full in [false, true] {
            fault_sweep(version, full, Target::CreateEmptyStream);
        }
    }
}

#[test]
fn failures_while_creating_a_stream_with_data() {
    for version in [Version::V3, Version::V4] {
        for full in [false, true] {
            fault_sweep(version, full, Target::CreateStreamWithData);
        }
    }
}

#[test]
fn failures_while_creating_a_storage() {
    for version in [Version::V3, Version::V4] {
        for full in [false, true] {
            fault_sweep(version, full, Target::CreateStorage);
        }
    }
}

#[test]
fn failures_while_removing() {
    for version in [Version::V3, Version::V4] {
        fault_sweep(version, false, Target::RemoveStream);
        fault_sweep(version, false, Target::RemoveStorage);
    }
}

/// A failed attempt to create an object, made good by a second attempt,
/// leaves an image that reopens (also in strict mode) to the right state -
/// as long as the failure came before the library began to write the new
/// entry itself (afterwards the file and the object may disagree until the
/// entry is written again).
#[test]
fn failed_then_repeated_creation_gives_a_sound_file() {
    for version in [Version::V3, Version::V4] {
        // Not `full`: with a free slot, creating writes the link and then
        // the entry, and nothing else.
        let base = base_file(version, false);
        let mut clean_slot = None;
        for position in 0..1000 {
            let shared = Shared::new(base.clone());
            let mut comp = CompoundFile::open(shared.file()).unwrap();
            let mut model = Model::from_items(&snapshot(&mut comp));
            shared.arm(position, false, false);
            let result = comp.create_stream("/st/fresh");
            let hit = shared.hits() > 0;
            shared.disarm();
            if !hit {
                result.unwrap();
                clean_slot = parse_dir(&shared.bytes()).slot_of("fresh");
                break;
            }
            assert!(result.is_err());
            if comp.exists("/st/fresh") {
                // The link was written, the entry was not: see above.
                continue;
            }
            // Seek or write of the link failed: nothing has changed.
            assert!(shared.bytes() == base, "position {}", position);
            comp.create_stream("/st/fresh").unwrap();
            model
                .create_stream(&["st".into(), "fresh".into()], &[], false)
                .unwrap();
            let live = snapshot(&mut comp);
            assert_same(&live, &model.preorder(), "repeated");
            check_image(&shared, &live, "repeated");
        }
        assert!(clean_slot.is_some());
    }
}

//===========================================================================//
// C18 and a safety net for this change: fault-free histories give, byte for
// byte, the images that the library gave before free slots were listed (the
// numbers below were taken from the unchanged library).

fn fingerprint(bytes: &[u8]) -> u64 {
    let mut hash = 0xCBF2_9CE4_8422_2325u64;
    for &byte in bytes {
        hash = (hash ^ byte as u64).wrapping_mul(0x0000_0100_0000_01B3);
    }
    hash
}

#[test]
fn images_are_the_same_as_before() {
    let expected: [u64; 8] = [
        0x15683BCC280CB797,
        0x2F560A752DF55F75,
        0xF1986C2364E0C305,
        0x1F7F7B4AF5241178,
        0xAF617E80710C9F65,
        0xEF654B40DDF9D103,
        0xB6F7BB051F7B605E,
        0xB452EE7BE56A29EE,
    ];
    let mut actual = Vec::new();
    for (version, seed, big_data) in [
        (Version::V3, 4001, false),
        (Version::V4, 4002, false),
        (Version::V3, 4003, true),
        (Version::V4, 4004, true),
    ] {
        let ops = history(seed, 400, big_data);
        let (mut comp, shared) = create(version);
        let mut model = Model::new();
        replay(&mut comp, &shared, &mut model, &ops[..200]);
        actual.push(fingerprint(&shared.bytes()));
        // Go on with the reopened image.
        let (mut comp, shared) = open(shared.bytes());
        replay(&mut comp, &shared, &mut model, &ops[200..]);
        actual.push(fingerprint(&shared.bytes()));
    }
    assert_eq!(actual, expected);
}

//===========================================================================//
// C14: the compound file can still be shared between threads; readers run
// while a stream handle writes.

#[test]
fn readers_run_alongside_stream_io() {
    let cursor = io::Cursor::new(Vec::new());
    let mut comp = CompoundFile::create_with_version(Version::V3, cursor)
        .expect("create");
    for i in 0..10 {
        comp.create_storage(format!("/dir{}", i)).unwrap();
        comp.create_stream(format!("/dir{}/s", i)).unwrap();
    }
    for i in 0..10 {
        if i % 3 == 0 {
            comp.remove_storage_all(format!("/dir{}", i)).unwrap();
        }
    }
    let mut stream = comp.create_stream("/dir1/busy").unwrap();
    let count = 1 + 6 * 2 + 1;
    let comp_ref = &comp;
    std::thread::scope(|scope| {
        for _ in 0..3 {
            scope.spawn(move || {
                for _ in 0..300 {
                    assert_eq!(comp_ref.walk().count(), count);
                    assert!(comp_ref.is_stream("/DIR1/BUSY"));
                    assert!(
                        comp_ref.entry("/dir1/busy").unwrap().len() <= 60_000
                    );
                    assert_eq!(
                        comp_ref.read_storage("/dir2").unwrap().count(),
                        1
                    );
                    assert!(!comp_ref.exists("/dir3"));
                }
            });
        }
        for i in 0..300 {
            stream.write_all(&[i as u8; 200]).unwrap();
            if i % 7 == 0 {
                stream.flush().unwrap();
            }
        }
        stream.flush().unwrap();
    });
    drop(stream);
    assert_eq!(comp.entry("/dir1/busy").unwrap().len(), 60_000);
    let bytes = comp.into_inner().into_inner();
    let mut strict =
        CompoundFile::open_strict(io::Cursor::new(bytes)).unwrap();
    assert_eq!(strict.walk().count(), count);
    let mut data = Vec::new();
    strict.open_stream("/dir1/busy").unwrap().read_to_end(&mut data).unwrap();
    assert_eq!(data.len(), 60_000);
    assert!(data.chunks(200).enumerate().all(|(i, c)| c == [i as u8; 200]));
}
