// Behavioural checks for sector / mini sector allocation and its roll-back.
//
// Only the public API and std are used.  Everything except the one
// `#[ignore]`d test (which asserts the new order of steps in an allocation)
// holds for the library before and after the change.

use cfb::{CompoundFile, OpenOptions, Version};
use std::collections::{BTreeMap, BTreeSet};
use std::io::{self, ErrorKind, Read, Seek, SeekFrom, Write};
#[allow(unused_imports)]
use std::panic;
use std::sync::atomic::{AtomicBool, AtomicU64, Ordering};
use std::sync::{Arc, Mutex};
use std::time::{Duration, UNIX_EPOCH};

//===========================================================================//
// A small deterministic PRNG (xorshift64*).

struct Rng(u64);

impl Rng {
    fn new(seed: u64) -> Rng {
        Rng(seed.wrapping_mul(0x9E37_79B9_7F4A_7C15) | 1)
    }
    fn next(&mut self) -> u64 {
        let mut x = self.0;
        x ^= x >> 12;
        x ^= x << 25;
        x ^= x >> 27;
        self.0 = x;
        x.wrapping_mul(0x2545_F491_4F6C_DD1D)
    }
    fn below(&mut self, n: u64) -> u64 {
        (self.next() >> 11) % n
    }
    fn pick<'a, T>(&mut self, items: &'a [T]) -> &'a T {
        &items[self.below(items.len() as u64) as usize]
    }
    /// Non-zero bytes, so that stale data showing up where zeros are due is
    /// always noticed.
    fn bytes(&mut self, len: usize) -> Vec<u8> {
        (0..len).map(|_| (self.next() >> 32) as u8 | 1).collect()
    }
    /// Lengths around the interesting boundaries.
    fn len(&mut self) -> usize {
        match self.below(12) {
            0 => 0,
            1 => 1 + self.below(63) as usize,
            2 => 63 + self.below(3) as usize,
            3 => 64 * (1 + self.below(8) as usize),
            4 => 500 + self.below(30) as usize,
            5 => 4095,
            6 => 4096,
            7 => 4097,
            8 => 4096 + self.below(600) as usize,
            9 => 8192 + self.below(3) as usize - 1,
            10 => self.below(4096) as usize,
            _ => self.below(14000) as usize,
        }
    }
}

//===========================================================================//
// Backends.

/// An in-memory file whose bytes can be inspected while the compound file
/// that owns it is alive (as a crash or `into_inner` would leave them).  It
/// can inject one-shot faults into write-side calls, split transfers into
/// short ones and interrupt reads and writes.
#[derive(Clone)]
struct Shared {
    data: Arc<Mutex<Vec<u8>>>,
    pos: u64,
    ctl: Arc<Control>,
}

#[derive(Default)]
struct Control {
    /// Number of write/seek/flush calls seen while armed.
    ops: AtomicU64,
    /// The call with this number fails (0 = never).
    fail_at: AtomicU64,
    /// Fail reads and read-side seeks too (for the read-fault test).
    fail_reads: AtomicBool,
    armed: AtomicBool,
    fired: AtomicU64,
    /// Maximum bytes per read/write call (0 = unlimited).
    chunk: AtomicU64,
    /// Every n-th read/write call is interrupted first (0 = never).
    interrupt_every: AtomicU64,
    calls: AtomicU64,
}

impl Shared {
    fn new(bytes: Vec<u8>) -> Shared {
        Shared {
            data: Arc::new(Mutex::new(bytes)),
            pos: 0,
            ctl: Arc::new(Control::default()),
        }
    }
    fn image(&self) -> Vec<u8> {
        self.data.lock().unwrap().clone()
    }
    fn tick(&self, what: &str) -> io::Result<()> {
        if !self.ctl.armed.load(Ordering::SeqCst) {
            return Ok(());
        }
        let n = self.ctl.ops.fetch_add(1, Ordering::SeqCst) + 1;
        if n == self.ctl.fail_at.load(Ordering::SeqCst) {
            self.ctl.fired.fetch_add(1, Ordering::SeqCst);
            return Err(io::Error::other(format!("injected {} fault", what)));
        }
        Ok(())
    }
    fn maybe_interrupt(&self) -> io::Result<()> {
        let every = self.ctl.interrupt_every.load(Ordering::SeqCst);
        if every != 0 {
            let n = self.ctl.calls.fetch_add(1, Ordering::SeqCst) + 1;
            if n % every == 0 {
                return Err(io::Error::new(ErrorKind::Interrupted, "again"));
            }
        }
        Ok(())
    }
    fn limit(&self, len: usize) -> usize {
        match self.ctl.chunk.load(Ordering::SeqCst) {
            0 => len,
            chunk => len.min(chunk as usize),
        }
    }
}

impl Read for Shared {
    fn read(&mut self, buf: &mut [u8]) -> io::Result<usize> {
        if self.ctl.fail_reads.load(Ordering::SeqCst) {
            self.tick("read")?;
        }
        self.maybe_interrupt()?;
        let data = self.data.lock().unwrap();
        let start = (self.pos as usize).min(data.len());
        let n = self.limit(buf.len().min(data.len() - start));
        buf[..n].copy_from_slice(&data[start..start + n]);
        self.pos += n as u64;
        Ok(n)
    }
}

impl Write for Shared {
    fn write(&mut self, buf: &[u8]) -> io::Result<usize> {
        self.tick("write")?;
        self.maybe_interrupt()?;
        let n = self.limit(buf.len());
        let mut data = self.data.lock().unwrap();
        let start = self.pos as usize;
        if data.len() < start + n {
            data.resize(start + n, 0);
        }
        data[start..start + n].copy_from_slice(&buf[..n]);
        self.pos += n as u64;
        Ok(n)
    }
    fn flush(&mut self) -> io::Result<()> {
        self.tick("flush")
    }
}

impl Seek for Shared {
    fn seek(&mut self, pos: SeekFrom) -> io::Result<u64> {
        self.tick("seek")?;
        let len = self.data.lock().unwrap().len() as i64;
        let new = match pos {
            SeekFrom::Start(p) => p as i64,
            SeekFrom::End(d) => len + d,
            SeekFrom::Current(d) => self.pos as i64 + d,
        };
        if new < 0 {
            return Err(io::Error::new(ErrorKind::InvalidInput, "neg seek"));
        }
        self.pos = new as u64;
        Ok(self.pos)
    }
}

//===========================================================================//
// An independent structural checker for MS-CFB images.

const FREE: u32 = 0xFFFF_FFFF;
const EOC: u32 = 0xFFFF_FFFE;
const FATSECT: u32 = 0xFFFF_FFFD;
const DIFSECT: u32 = 0xFFFF_FFFC;
const NOSTREAM: u32 = 0xFFFF_FFFF;

fn u16_at(b: &[u8], o: usize) -> u16 {
    u16::from_le_bytes([b[o], b[o + 1]])
}
fn u32_at(b: &[u8], o: usize) -> u32 {
    u32::from_le_bytes([b[o], b[o + 1], b[o + 2], b[o + 3]])
}
fn u64_at(b: &[u8], o: usize) -> u64 {
    u32_at(b, o) as u64 | ((u32_at(b, o + 4) as u64) << 32)
}
fn put_u32(b: &mut [u8], o: usize, v: u32) {
    b[o..o + 4].copy_from_slice(&v.to_le_bytes());
}

#[derive(Clone, Debug)]
struct RawEntry {
    name: String,
    obj_type: u8,
    left: u32,
    right: u32,
    child: u32,
    start: u32,
    size: u64,
}

/// The allocation structures of an image, as parsed by the checker.
#[derive(Debug)]
#[allow(dead_code)]
struct Layout {
    ss: usize,
    num_sectors: usize,
    difat_sectors: Vec<u32>,
    fat_sectors: Vec<u32>,
    fat: Vec<u32>,
    dir_chain: Vec<u32>,
    entries: Vec<RawEntry>,
    minifat_chain: Vec<u32>,
    minifat: Vec<u32>,
    mini_chain: Vec<u32>,
    /// Path (upper-cased) -> chain of sectors or mini sectors.
    stream_chains: BTreeMap<String, (bool, Vec<u32>)>,
}

macro_rules! ensure {
    ($cond:expr, $($arg:tt)+) => {
        if !$cond { return Err(format!($($arg)+)); }
    };
}

fn follow(
    table: &[u32],
    start: u32,
    limit: usize,
    what: &str,
) -> Result<Vec<u32>, String> {
    let mut chain = Vec::new();
    let mut cur = start;
    while cur != EOC {
        ensure!(
            (cur as usize) < limit,
            "{}: sector {} out of range",
            what,
            cur
        );
        ensure!(chain.len() <= limit, "{}: chain loops", what);
        chain.push(cur);
        cur = table[cur as usize];
    }
    Ok(chain)
}

fn parse_layout(img: &[u8]) -> Result<Layout, String> {
    ensure!(img.len() >= 512, "shorter than a header");
    ensure!(
        img[..8] == [0xD0, 0xCF, 0x11, 0xE0, 0xA1, 0xB1, 0x1A, 0xE1],
        "bad signature"
    );
    let major = u16_at(img, 26);
    ensure!(major == 3 || major == 4, "bad version {}", major);
    let ss: usize = if major == 3 { 512 } else { 4096 };
    ensure!(u16_at(img, 30) as usize == ss.trailing_zeros() as usize, "shift");
    ensure!(u16_at(img, 32) == 6, "mini sector shift");
    ensure!(u32_at(img, 56) == 4096, "mini stream cutoff");
    ensure!(img.len() % ss == 0, "length {} is not whole sectors", img.len());
    ensure!(img.len() >= 2 * ss, "no sectors at all");
    let num_sectors = img.len() / ss - 1;
    let sector = |id: u32| -> &[u8] {
        let start = (id as usize + 1) * ss;
        &img[start..start + ss]
    };
    // DIFAT.
    let mut fat_sectors: Vec<u32> =
        (0..109).map(|i| u32_at(img, 76 + 4 * i)).collect();
    let mut difat_sectors = Vec::new();
    let mut cur = u32_at(img, 68);
    while cur != EOC {
        ensure!(
            (cur as usize) < num_sectors,
            "DIFAT sector {} out of range",
            cur
        );
        ensure!(!difat_sectors.contains(&cur), "DIFAT chain loops");
        difat_sectors.push(cur);
        let s = sector(cur);
        for i in 0..(ss / 4 - 1) {
            fat_sectors.push(u32_at(s, 4 * i));
        }
        cur = u32_at(s, ss - 4);
    }
    ensure!(
        u32_at(img, 72) as usize == difat_sectors.len(),
        "header says {} DIFAT sectors, chain has {}",
        u32_at(img, 72),
        difat_sectors.len()
    );
    let used = fat_sectors
        .iter()
        .position(|&s| s == FREE)
        .unwrap_or(fat_sectors.len());
    ensure!(
        fat_sectors[used..].iter().all(|&s| s == FREE),
        "DIFAT has entries after a free one"
    );
    fat_sectors.truncate(used);
    ensure!(
        u32_at(img, 44) as usize == fat_sectors.len(),
        "header says {} FAT sectors, DIFAT lists {}",
        u32_at(img, 44),
        fat_sectors.len()
    );
    // FAT.
    let mut fat = Vec::new();
    for &id in &fat_sectors {
        ensure!((id as usize) < num_sectors, "FAT sector {} out of range", id);
        let s = sector(id);
        fat.extend((0..ss / 4).map(|i| u32_at(s, 4 * i)));
    }
    ensure!(fat.len() >= num_sectors, "FAT does not cover the file");
    ensure!(
        fat[num_sectors..].iter().all(|&e| e == FREE),
        "FAT entries beyond the end of the file are not free"
    );
    fat.truncate(num_sectors);
    // Directory.
    let dir_chain = follow(&fat, u32_at(img, 48), num_sectors, "directory")?;
    ensure!(!dir_chain.is_empty(), "no directory");
    let expect_dir = if major == 3 { 0 } else { dir_chain.len() };
    ensure!(
        u32_at(img, 40) as usize == expect_dir,
        "header says {} directory sectors, expected {}",
        u32_at(img, 40),
        expect_dir
    );
    let mut entries = Vec::new();
    for &id in &dir_chain {
        let s = sector(id);
        for e in s.chunks(128) {
            let name_len = u16_at(e, 64) as usize;
            ensure!(name_len <= 64 && name_len % 2 == 0, "bad name length");
            let units: Vec<u16> = (0..name_len.saturating_sub(2) / 2)
                .map(|i| u16_at(e, 2 * i))
                .collect();
            let obj_type = e[66];
            let size = if major == 3 {
                u32_at(e, 120) as u64
            } else {
                u64_at(e, 120)
            };
            if obj_type == 0 {
                ensure!(
                    e[..64].iter().all(|&b| b == 0)
                        && name_len <= 2
                        && u32_at(e, 68) == NOSTREAM
                        && u32_at(e, 72) == NOSTREAM
                        && u32_at(e, 76) == NOSTREAM
                        && e[80..128].iter().all(|&b| b == 0),
                    "unallocated entry {} is not blank",
                    entries.len()
                );
            }
            if obj_type == 2 {
                ensure!(
                    e[80..96].iter().all(|&b| b == 0)
                        && e[100..116].iter().all(|&b| b == 0),
                    "stream entry carries a CLSID or timestamps"
                );
            }
            entries.push(RawEntry {
                name: String::from_utf16_lossy(&units),
                obj_type,
                left: u32_at(e, 68),
                right: u32_at(e, 72),
                child: u32_at(e, 76),
                start: u32_at(e, 116),
                size,
            });
        }
    }
    ensure!(entries[0].obj_type == 5, "entry 0 is not the root");
    // MiniFAT and mini stream.
    let minifat_chain = follow(&fat, u32_at(img, 60), num_sectors, "MiniFAT")?;
    ensure!(
        u32_at(img, 64) as usize == minifat_chain.len(),
        "header says {} MiniFAT sectors, chain has {}",
        u32_at(img, 64),
        minifat_chain.len()
    );
    let mut minifat = Vec::new();
    for &id in &minifat_chain {
        let s = sector(id);
        minifat.extend((0..ss / 4).map(|i| u32_at(s, 4 * i)));
    }
    let mini_len = entries[0].size;
    ensure!(mini_len % 64 == 0, "mini stream length {} not whole", mini_len);
    let mini_chain = if mini_len == 0 && entries[0].start == EOC {
        Vec::new()
    } else {
        follow(&fat, entries[0].start, num_sectors, "mini stream")?
    };
    ensure!(
        (mini_chain.len() * ss) as u64 >= mini_len,
        "mini stream chain shorter than its length"
    );
    let num_mini = (mini_len / 64) as usize;
    ensure!(
        minifat.len() >= num_mini || minifat[..].iter().all(|&e| e == FREE),
        "MiniFAT does not cover the mini stream"
    );
    for (i, &e) in minifat.iter().enumerate() {
        ensure!(
            i < num_mini || e == FREE,
            "mini sector {} beyond mini stream",
            i
        );
    }
    // Ownership of sectors.
    let mut owner: Vec<Option<String>> = vec![None; num_sectors];
    let mut claim = |ids: &[u32], who: &str| -> Result<(), String> {
        for &id in ids {
            if let Some(prev) = &owner[id as usize] {
                return Err(format!(
                    "sector {} owned by {} and {}",
                    id, prev, who
                ));
            }
            owner[id as usize] = Some(who.to_string());
        }
        Ok(())
    };
    claim(&fat_sectors, "FAT")?;
    claim(&difat_sectors, "DIFAT")?;
    claim(&dir_chain, "directory")?;
    claim(&minifat_chain, "MiniFAT")?;
    claim(&mini_chain, "mini stream")?;
    for &id in &fat_sectors {
        ensure!(fat[id as usize] == FATSECT, "FAT sector {} not marked", id);
    }
    for &id in &difat_sectors {
        ensure!(fat[id as usize] == DIFSECT, "DIFAT sector {} not marked", id);
    }
    // Walk the tree.
    let mut mini_owner: Vec<Option<String>> = vec![None; minifat.len()];
    let mut stream_chains = BTreeMap::new();
    let mut reachable = BTreeSet::new();
    reachable.insert(0u32);
    let mut stack: Vec<(u32, String)> =
        vec![(entries[0].child, String::new())];
    while let Some((id, prefix)) = stack.pop() {
        if id == NOSTREAM {
            continue;
        }
        ensure!((id as usize) < entries.len(), "entry id {} out of range", id);
        ensure!(reachable.insert(id), "entry {} reachable twice", id);
        let e = &entries[id as usize];
        let path = format!("{}/{}", prefix, e.name.to_uppercase());
        stack.push((e.left, prefix.clone()));
        stack.push((e.right, prefix.clone()));
        match e.obj_type {
            1 => {
                ensure!(
                    e.start == 0 || e.start == EOC,
                    "storage with start sector"
                );
                ensure!(e.size == 0, "storage with a size");
                stack.push((e.child, path));
            }
            2 => {
                ensure!(e.child == NOSTREAM, "stream with a child");
                let (is_mini, chain) = if e.size == 0 {
                    ensure!(
                        e.start == EOC,
                        "empty stream {} has sectors",
                        path
                    );
                    (true, Vec::new())
                } else if e.size < 4096 {
                    let chain = follow(&minifat, e.start, num_mini, &path)?;
                    ensure!(
                        chain.len() as u64 == e.size.div_ceil(64),
                        "{}: {} mini sectors for {} bytes",
                        path,
                        chain.len(),
                        e.size
                    );
                    for &m in &chain {
                        if let Some(prev) = &mini_owner[m as usize] {
                            return Err(format!(
                                "mini sector {} owned by {} and {}",
                                m, prev, path
                            ));
                        }
                        mini_owner[m as usize] = Some(path.clone());
                    }
                    (true, chain)
                } else {
                    let chain = follow(&fat, e.start, num_sectors, &path)?;
                    ensure!(
                        chain.len() as u64 == e.size.div_ceil(ss as u64),
                        "{}: {} sectors for {} bytes",
                        path,
                        chain.len(),
                        e.size
                    );
                    claim(&chain, &path)?;
                    (false, chain)
                };
                stream_chains.insert(path, (is_mini, chain));
            }
            t => return Err(format!("reachable entry {} has type {}", id, t)),
        }
    }
    for (id, e) in entries.iter().enumerate() {
        ensure!(
            reachable.contains(&(id as u32)) || e.obj_type == 0,
            "entry {} is allocated but unreachable",
            id
        );
    }
    for (id, &e) in fat.iter().enumerate() {
        ensure!(
            (e == FREE) == owner[id].is_none(),
            "sector {}: FAT entry {:08X}, owner {:?}",
            id,
            e,
            owner[id]
        );
    }
    for (id, &e) in minifat.iter().enumerate() {
        ensure!(
            (e == FREE) == mini_owner[id].is_none(),
            "mini sector {}: MiniFAT entry {:08X}, owner {:?}",
            id,
            e,
            mini_owner[id]
        );
    }
    Ok(Layout {
        ss,
        num_sectors,
        difat_sectors,
        fat_sectors,
        fat,
        dir_chain,
        entries,
        minifat_chain,
        minifat,
        mini_chain,
        stream_chains,
    })
}

fn check_image(img: &[u8], context: &str) -> Layout {
    match parse_layout(img) {
        Ok(layout) => layout,
        Err(msg) => panic!("malformed image ({}): {}", context, msg),
    }
}

//===========================================================================//
// The abstract model: a tree of storages with case-insensitive names.

type Key = (usize, String);

#[derive(Clone, Debug, PartialEq)]
enum Node {
    Storage(BTreeMap<Key, (String, Node)>),
    Stream(Vec<u8>),
}

fn key(name: &str) -> Key {
    (name.encode_utf16().count(), name.to_uppercase())
}

impl Node {
    fn children(&self) -> &BTreeMap<Key, (String, Node)> {
        match self {
            Node::Storage(children) => children,
            Node::Stream(_) => panic!("not a storage"),
        }
    }
    fn children_mut(&mut self) -> &mut BTreeMap<Key, (String, Node)> {
        match self {
            Node::Storage(children) => children,
            Node::Stream(_) => panic!("not a storage"),
        }
    }
    fn get(&self, path: &[String]) -> Option<&Node> {
        match path.split_first() {
            None => Some(self),
            Some((first, rest)) => match self {
                Node::Storage(children) => {
                    children.get(&key(first)).and_then(|(_, n)| n.get(rest))
                }
                Node::Stream(_) => None,
            },
        }
    }
    fn get_mut(&mut self, path: &[String]) -> Option<&mut Node> {
        match path.split_first() {
            None => Some(self),
            Some((first, rest)) => match self {
                Node::Storage(children) => children
                    .get_mut(&key(first))
                    .and_then(|(_, n)| n.get_mut(rest)),
                Node::Stream(_) => None,
            },
        }
    }
    fn data_mut(&mut self, path: &[String]) -> &mut Vec<u8> {
        match self.get_mut(path) {
            Some(Node::Stream(data)) => data,
            _ => panic!("model: no stream at {:?}", path),
        }
    }
    /// Pre-order listing with the stored spelling of each name:
    /// (path, Some(len) for streams).
    fn listing(&self, prefix: &str, out: &mut Vec<(String, Option<u64>)>) {
        for (name, node) in self.children().values() {
            let path = format!("{}/{}", prefix, name);
            match node {
                Node::Stream(data) => {
                    out.push((path, Some(data.len() as u64)))
                }
                Node::Storage(_) => {
                    out.push((path.clone(), None));
                    node.listing(&path, out);
                }
            }
        }
    }
    fn paths(
        &self,
        prefix: &mut Vec<String>,
        storages: &mut Vec<Vec<String>>,
        streams: &mut Vec<Vec<String>>,
    ) {
        for (name, node) in self.children().values() {
            prefix.push(name.clone());
            match node {
                Node::Stream(_) => streams.push(prefix.clone()),
                Node::Storage(_) => {
                    storages.push(prefix.clone());
                    node.paths(prefix, storages, streams);
                }
            }
            prefix.pop();
        }
    }
}

fn join(path: &[String]) -> String {
    format!("/{}", path.join("/"))
}

/// Compares everything observable through `cf` with the model.
fn compare<F: Read + Seek>(cf: &mut CompoundFile<F>, model: &Node, ctx: &str) {
    let mut expected = vec![("/".to_string(), None)];
    model.listing("", &mut expected);
    let actual: Vec<(String, Option<u64>)> = cf
        .walk()
        .map(|e| {
            let path = e.path().to_str().unwrap().replace('\\', "/");
            (path, if e.is_stream() { Some(e.len()) } else { None })
        })
        .collect();
    assert_eq!(actual, expected, "walk differs ({})", ctx);
    for (path, len) in &expected {
        assert!(cf.exists(path), "{} missing ({})", path, ctx);
        assert_eq!(cf.is_stream(path), len.is_some(), "{} ({})", path, ctx);
        assert_eq!(cf.is_storage(path), len.is_none(), "{} ({})", path, ctx);
        if let Some(len) = len {
            let names: Vec<String> =
                path[1..].split('/').map(str::to_string).collect();
            let want = match model.get(&names) {
                Some(Node::Stream(data)) => data,
                _ => unreachable!(),
            };
            // Address the stream by another spelling of its path.
            let mut stream = cf.open_stream(path.to_uppercase()).unwrap();
            assert_eq!(stream.len(), *len, "{} ({})", path, ctx);
            let mut got = Vec::new();
            stream.read_to_end(&mut got).unwrap();
            assert!(got == *want, "content of {} differs ({})", path, ctx);
        } else if path != "/" {
            let listed: Vec<String> = cf
                .read_storage(path)
                .unwrap()
                .map(|e| e.name().to_string())
                .collect();
            let names: Vec<String> =
                path[1..].split('/').map(str::to_string).collect();
            let want: Vec<String> = model
                .get(&names)
                .unwrap()
                .children()
                .values()
                .map(|(name, _)| name.clone())
                .collect();
            assert_eq!(listed, want, "listing of {} ({})", path, ctx);
        }
    }
}

/// The image must be well-formed and must reopen, strictly and permissively,
/// to exactly the state of the model.
fn check_reopen(image: &[u8], model: &Node, ctx: &str) -> Layout {
    let layout = check_image(image, ctx);
    let mut strict =
        CompoundFile::open_strict(io::Cursor::new(image.to_vec()))
            .unwrap_or_else(|e| panic!("strict open failed ({}): {}", ctx, e));
    compare(&mut strict, model, &format!("{} / strict", ctx));
    let mut permissive = CompoundFile::open(io::Cursor::new(image.to_vec()))
        .unwrap_or_else(|e| panic!("permissive open failed ({}): {}", ctx, e));
    compare(&mut permissive, model, &format!("{} / permissive", ctx));
    layout
}

//===========================================================================//
// Random histories against the model.

const NAMES: &[&str] = &[
    "a",
    "b",
    "C",
    "dd",
    "Ee",
    "s1",
    "S2",
    "data",
    "Blob",
    "x_long_name_0123456789012345678",
];

struct Sys {
    cf: CompoundFile<Shared>,
    backend: Shared,
    model: Node,
    rng: Rng,
    log: Vec<String>,
    full_checks: bool,
}

fn new_backend() -> Shared {
    Shared::new(Vec::new())
}

impl Sys {
    fn create(version: Version, seed: u64) -> Sys {
        let backend = new_backend();
        let cf = CompoundFile::create_with_version(version, backend.clone())
            .unwrap();
        Sys {
            cf,
            backend,
            model: Node::Storage(BTreeMap::new()),
            rng: Rng::new(seed),
            log: Vec::new(),
            full_checks: true,
        }
    }

    fn from_image(image: Vec<u8>, model: Node, seed: u64) -> Sys {
        let backend = Shared::new(image);
        let cf = CompoundFile::open_strict(backend.clone()).unwrap();
        Sys {
            cf,
            backend,
            model,
            rng: Rng::new(seed),
            log: Vec::new(),
            full_checks: true,
        }
    }

    fn ctx(&self) -> String {
        let from = self.log.len().saturating_sub(12);
        format!("history tail: {:#?}", &self.log[from..])
    }

    fn verify(&mut self) {
        let ctx = self.ctx();
        compare(&mut self.cf, &self.model, &ctx);
        if self.full_checks {
            check_reopen(&self.backend.image(), &self.model, &ctx);
        }
    }

    fn paths(&self) -> (Vec<Vec<String>>, Vec<Vec<String>>) {
        let mut storages = vec![Vec::new()];
        let mut streams = Vec::new();
        self.model.paths(&mut Vec::new(), &mut storages, &mut streams);
        (storages, streams)
    }

    fn spell(&mut self, path: &[String]) -> String {
        let text = join(path);
        match self.rng.below(4) {
            0 => text.to_uppercase(),
            1 => text.to_lowercase(),
            2 => format!("{}/", text),
            _ => text,
        }
    }

    /// A spelling for an object that may not exist yet: if it does not, the
    /// last component is kept as it is, because it is stored verbatim.
    fn spell_new(&mut self, path: &[String]) -> String {
        if self.model.get(path).is_some() {
            return self.spell(path).trim_end_matches('/').to_string();
        }
        let (parent, name) = path.split_at(path.len() - 1);
        let parent = self.spell(parent);
        format!("{}/{}", parent.trim_end_matches('/'), name[0])
    }

    fn reopen(&mut self) {
        let image = self.backend.image();
        let backend = Shared::new(image);
        let strict = self.rng.below(2) == 0;
        let buffer = *self.rng.pick(&[0usize, 64, 100, 4096, 5000, 1 << 16]);
        let mut options = OpenOptions::new().max_buffer_size(buffer);
        if strict {
            options = options.strict();
        }
        self.log.push(format!("reopen strict={} buffer={}", strict, buffer));
        self.cf = options.open_with(backend.clone()).unwrap();
        self.backend = backend;
    }

    /// An operation that must be refused and must change nothing (C10).
    fn rejected(&mut self) {
        let (storages, streams) = self.paths();
        let before = self.backend.image();
        let which = self.rng.below(8);
        let (what, got, want): (String, io::Result<()>, ErrorKind) =
            match which {
                0 => {
                    let p = format!(
                        "{}/nope/x",
                        join(&self.rng.pick(&storages[..])[..])
                    );
                    let p = p.replace("//", "/");
                    (
                        format!("create_stream {}", p),
                        self.cf.create_stream(&p).map(|_| ()),
                        ErrorKind::NotFound,
                    )
                }
                1 => {
                    let p = format!(
                        "{}/bad:name",
                        join(&self.rng.pick(&storages[..])[..])
                    );
                    let p = p.replace("//", "/");
                    (
                        format!("create_storage {}", p),
                        self.cf.create_storage(&p),
                        ErrorKind::InvalidInput,
                    )
                }
                2 => (
                    "remove root".into(),
                    self.cf.remove_storage("/"),
                    ErrorKind::InvalidInput,
                ),
                3 if !streams.is_empty() => {
                    let p = join(&self.rng.pick(&streams[..])[..]);
                    (
                        format!("create_new_stream {}", p),
                        self.cf.create_new_stream(&p).map(|_| ()),
                        ErrorKind::AlreadyExists,
                    )
                }
                4 if !streams.is_empty() => {
                    let p = join(&self.rng.pick(&streams[..])[..]);
                    (
                        format!("remove_storage on stream {}", p),
                        self.cf.remove_storage(&p),
                        ErrorKind::InvalidInput,
                    )
                }
                5 if storages.len() > 1 => {
                    let p = join(
                        &storages[1
                            + self.rng.below(storages.len() as u64 - 1)
                                as usize],
                    );
                    (
                        format!("remove_stream on storage {}", p),
                        self.cf.remove_stream(&p),
                        ErrorKind::InvalidInput,
                    )
                }
                6 if !streams.is_empty() => {
                    let p = join(&self.rng.pick(&streams[..])[..]);
                    let mut s = self.cf.open_stream(&p).unwrap();
                    let len = s.len();
                    let r = s.seek(SeekFrom::Start(len + 1)).map(|_| ());
                    assert_eq!(s.stream_position().unwrap(), 0);
                    (
                        format!("seek past end of {}", p),
                        r,
                        ErrorKind::InvalidInput,
                    )
                }
                _ => (
                    "remove_stream /../x".into(),
                    self.cf.remove_stream("/../x"),
                    ErrorKind::InvalidInput,
                ),
            };
        self.log.push(format!("rejected: {}", what));
        match got {
            Ok(()) => panic!("{} succeeded ({})", what, self.ctx()),
            Err(e) => assert_eq!(e.kind(), want, "{} ({})", what, self.ctx()),
        }
        assert!(before == self.backend.image(), "{} changed the file", what);
    }

    fn step(&mut self) {
        let (storages, streams) = self.paths();
        let op = self.rng.below(20);
        match op {
            0..=4 => {
                // Create (or replace) a stream and write it whole.
                let mut path = self.rng.pick(&storages).clone();
                path.push(self.rng.pick(NAMES).to_string());
                let data = {
                    let len = self.rng.len();
                    self.rng.bytes(len)
                };
                let text = self.spell_new(&path);
                self.log.push(format!(
                    "create_stream {} len={}",
                    text,
                    data.len()
                ));
                match self.model.get(&path) {
                    Some(Node::Storage(_)) => {
                        let before = self.backend.image();
                        let err = self
                            .cf
                            .create_stream(&text)
                            .map(|_| ())
                            .unwrap_err();
                        assert_eq!(err.kind(), ErrorKind::AlreadyExists);
                        assert!(before == self.backend.image());
                    }
                    existing => {
                        let existed = existing.is_some();
                        if streams.len() >= 14 && !existed {
                            return;
                        }
                        let mut stream = self.cf.create_stream(&text).unwrap();
                        assert_eq!(stream.len(), 0);
                        stream.write_all(&data).unwrap();
                        stream.flush().unwrap();
                        drop(stream);
                        if existed {
                            *self.model.data_mut(&path) = data;
                        } else {
                            let (parent, name) = path.split_at(path.len() - 1);
                            self.model
                                .get_mut(parent)
                                .unwrap()
                                .children_mut()
                                .insert(
                                    key(&name[0]),
                                    (name[0].clone(), Node::Stream(data)),
                                );
                        }
                    }
                }
            }
            5..=8 if !streams.is_empty() => {
                // Edit a stream through a handle.
                let path = self.rng.pick(&streams).clone();
                let text = self.spell(&path);
                let text = text.trim_end_matches('/').to_string();
                let mut stream = self.cf.open_stream(&text).unwrap();
                let rounds = 1 + self.rng.below(4);
                for _ in 0..rounds {
                    let old_len = self.model.data_mut(&path).len();
                    assert_eq!(stream.len(), old_len as u64);
                    match self.rng.below(3) {
                        0 => {
                            let new_len = self.rng.len();
                            self.log.push(format!(
                                "set_len {} {} -> {}",
                                text, old_len, new_len
                            ));
                            let pos = stream.stream_position().unwrap();
                            stream.set_len(new_len as u64).unwrap();
                            self.model.data_mut(&path).resize(new_len, 0);
                            assert_eq!(
                                stream.stream_position().unwrap(),
                                pos.min(new_len as u64)
                            );
                        }
                        _ => {
                            let pos =
                                self.rng.below(old_len as u64 + 1) as usize;
                            let chunk = {
                                let len = self.rng.len() / 2;
                                self.rng.bytes(len)
                            };
                            self.log.push(format!(
                                "write {} at {} len={}",
                                text,
                                pos,
                                chunk.len()
                            ));
                            stream.seek(SeekFrom::Start(pos as u64)).unwrap();
                            stream.write_all(&chunk).unwrap();
                            let data = self.model.data_mut(&path);
                            if data.len() < pos + chunk.len() {
                                data.resize(pos + chunk.len(), 0);
                            }
                            data[pos..pos + chunk.len()]
                                .copy_from_slice(&chunk);
                        }
                    }
                }
                stream.flush().unwrap();
                let want = self.model.data_mut(&path).clone();
                stream.seek(SeekFrom::Start(0)).unwrap();
                let mut got = Vec::new();
                stream.read_to_end(&mut got).unwrap();
                assert!(
                    got == want,
                    "handle reads other bytes ({})",
                    self.ctx()
                );
            }
            9..=11 if !streams.is_empty() => {
                let path = self.rng.pick(&streams).clone();
                let text = self.spell(&path);
                self.log.push(format!("remove_stream {}", text));
                self.cf.remove_stream(&text).unwrap();
                let (parent, name) = path.split_at(path.len() - 1);
                self.model
                    .get_mut(parent)
                    .unwrap()
                    .children_mut()
                    .remove(&key(&name[0]));
            }
            12..=13 => {
                let mut path = self.rng.pick(&storages).clone();
                if path.len() >= 3 {
                    return;
                }
                path.push(self.rng.pick(NAMES).to_string());
                let text = self.spell_new(&path);
                self.log.push(format!("create_storage {}", text));
                let result = self.cf.create_storage(&text);
                if self.model.get(&path).is_some() {
                    assert_eq!(
                        result.unwrap_err().kind(),
                        ErrorKind::AlreadyExists
                    );
                } else {
                    result.unwrap();
                    let (parent, name) = path.split_at(path.len() - 1);
                    self.model.get_mut(parent).unwrap().children_mut().insert(
                        key(&name[0]),
                        (name[0].clone(), Node::Storage(BTreeMap::new())),
                    );
                }
            }
            14 if storages.len() > 1 => {
                let idx =
                    1 + self.rng.below(storages.len() as u64 - 1) as usize;
                let path = storages[idx].clone();
                let text = self.spell(&path);
                self.log.push(format!("remove_storage {}", text));
                let result = self.cf.remove_storage(&text);
                if self.model.get(&path).unwrap().children().is_empty() {
                    result.unwrap();
                    let (parent, name) = path.split_at(path.len() - 1);
                    self.model
                        .get_mut(parent)
                        .unwrap()
                        .children_mut()
                        .remove(&key(&name[0]));
                } else {
                    assert_eq!(
                        result.unwrap_err().kind(),
                        ErrorKind::InvalidInput
                    );
                }
            }
            15 if storages.len() > 1 => {
                let idx =
                    1 + self.rng.below(storages.len() as u64 - 1) as usize;
                let path = storages[idx].clone();
                let text = self.spell(&path);
                self.log.push(format!("remove_storage_all {}", text));
                self.cf.remove_storage_all(&text).unwrap();
                let (parent, name) = path.split_at(path.len() - 1);
                self.model
                    .get_mut(parent)
                    .unwrap()
                    .children_mut()
                    .remove(&key(&name[0]));
            }
            16 => self.reopen(),
            17 => self.rejected(),
            18 if streams.len() >= 2 => self.two_handles(&streams),
            _ => {}
        }
    }

    /// Two handles on different streams, used alternately while a third
    /// stream comes and goes (C07).
    fn two_handles(&mut self, streams: &[Vec<String>]) {
        let a = self.rng.below(streams.len() as u64) as usize;
        let mut b = self.rng.below(streams.len() as u64 - 1) as usize;
        if b >= a {
            b += 1;
        }
        let paths = [streams[a].clone(), streams[b].clone()];
        self.log.push(format!(
            "two handles {} {}",
            join(&paths[0]),
            join(&paths[1])
        ));
        let mut handles = [
            self.cf.open_stream(join(&paths[0])).unwrap(),
            self.cf.open_stream(join(&paths[1])).unwrap(),
        ];
        let extra = vec!["zz_extra".to_string()];
        for round in 0..6 {
            let which = self.rng.below(2) as usize;
            let old_len = self.model.data_mut(&paths[which]).len();
            if self.rng.below(3) == 0 {
                let new_len = self.rng.len();
                self.log.push(format!("  [{}] set_len {}", which, new_len));
                handles[which].set_len(new_len as u64).unwrap();
                self.model.data_mut(&paths[which]).resize(new_len, 0);
            } else {
                let pos = self.rng.below(old_len as u64 + 1) as usize;
                let chunk = {
                    let len = self.rng.len() / 3;
                    self.rng.bytes(len)
                };
                self.log.push(format!(
                    "  [{}] write at {} len={}",
                    which,
                    pos,
                    chunk.len()
                ));
                handles[which].seek(SeekFrom::Start(pos as u64)).unwrap();
                handles[which].write_all(&chunk).unwrap();
                let data = self.model.data_mut(&paths[which]);
                if data.len() < pos + chunk.len() {
                    data.resize(pos + chunk.len(), 0);
                }
                data[pos..pos + chunk.len()].copy_from_slice(&chunk);
            }
            if round == 1 && self.model.get(&extra).is_none() {
                let data = {
                    let len = self.rng.len();
                    self.rng.bytes(len)
                };
                self.log
                    .push(format!("  create /zz_extra len={}", data.len()));
                let mut s = self.cf.create_stream("/zz_extra").unwrap();
                s.write_all(&data).unwrap();
                s.flush().unwrap();
                self.model.children_mut().insert(
                    key("zz_extra"),
                    ("zz_extra".into(), Node::Stream(data)),
                );
            }
            if round == 4 && self.model.get(&extra).is_some() {
                self.log.push("  remove /zz_extra".into());
                self.cf.remove_stream("/zz_extra").unwrap();
                self.model.children_mut().remove(&key("zz_extra"));
            }
        }
        for (handle, path) in handles.iter_mut().zip(paths.iter()) {
            handle.flush().unwrap();
            let want = self.model.data_mut(path).clone();
            assert_eq!(handle.len(), want.len() as u64);
            handle.seek(SeekFrom::Start(0)).unwrap();
            let mut got = Vec::new();
            handle.read_to_end(&mut got).unwrap();
            assert!(got == want, "handle reads other bytes ({})", self.ctx());
        }
    }

    fn run(&mut self, steps: usize) {
        self.verify();
        for _ in 0..steps {
            self.step();
            self.verify();
        }
    }
}

#[test]
fn random_histories_match_model_and_reopen() {
    for seed in 1..=16u64 {
        for &version in &[Version::V3, Version::V4] {
            let mut sys =
                Sys::create(version, seed * 31 + version.sector_len() as u64);
            sys.run(110);
        }
    }
}

//===========================================================================//
// C15: released space is reused.

fn fill(cf: &mut CompoundFile<Shared>, path: &str, len: usize, byte: u8) {
    let mut stream = cf.create_stream(path).unwrap();
    stream.write_all(&vec![byte; len]).unwrap();
    stream.flush().unwrap();
}

#[test]
fn net_zero_cycles_do_not_grow_the_file() {
    for &version in &[Version::V3, Version::V4] {
        let backend = new_backend();
        let mut cf =
            CompoundFile::create_with_version(version, backend.clone())
                .unwrap();
        // Some permanent content, with holes in both allocation tables.
        for i in 0..8 {
            fill(&mut cf, &format!("/keep{}", i), 100 + 900 * i, 0x11);
            fill(&mut cf, &format!("/big{}", i), 5000 + 3000 * i, 0x22);
        }
        for i in [1, 4, 6] {
            cf.remove_stream(format!("/keep{}", i)).unwrap();
            cf.remove_stream(format!("/big{}", i)).unwrap();
        }
        let mut sizes = Vec::new();
        for round in 0..6 {
            cf.create_storage("/tmp").unwrap();
            fill(&mut cf, "/tmp/small", 700, 0x33);
            fill(&mut cf, "/tmp/large", 30_000, 0x44);
            fill(&mut cf, "/tmp/edge", 4096, 0x55);
            // Overwrite, shrink across the cutoff, grow again.
            fill(&mut cf, "/tmp/large", 9000, 0x66);
            {
                let mut s = cf.open_stream("/tmp/edge").unwrap();
                s.set_len(4095).unwrap();
                s.set_len(20_000).unwrap();
                s.set_len(64).unwrap();
                let mut t = cf.open_stream("/keep2").unwrap();
                t.set_len(6000).unwrap();
                t.set_len(1900).unwrap();
            }
            cf.remove_storage_all("/tmp").unwrap();
            let image = backend.image();
            check_image(&image, &format!("cycle {}", round));
            sizes.push(image.len());
        }
        assert!(
            sizes[1..].iter().all(|&size| size == sizes[1]),
            "file keeps growing: {:?}",
            sizes
        );
        // /keep2 was grown and shrunk again: the regained bytes never show.
        let mut data = Vec::new();
        cf.open_stream("/keep2").unwrap().read_to_end(&mut data).unwrap();
        assert!(data == vec![0x11; 1900]);
    }
}

/// C08 with an allocator that now hands out the lowest hole first: whatever
/// the reused sectors held, grown streams read as zeros.
#[test]
fn grown_streams_read_zero_over_reused_space() {
    for &version in &[Version::V3, Version::V4] {
        for &(victim_len, grow_to) in &[
            (3000usize, 4000usize),
            (3000, 9000),
            (20_000, 30_000),
            (64, 65),
            (4095, 4096),
        ] {
            let backend = new_backend();
            let mut cf =
                CompoundFile::create_with_version(version, backend.clone())
                    .unwrap();
            fill(&mut cf, "/first", victim_len, 0xAA);
            fill(&mut cf, "/second", 10, 0xBB);
            fill(&mut cf, "/third", victim_len, 0xCC);
            cf.remove_stream("/first").unwrap();
            let mut s = cf.open_stream("/second").unwrap();
            s.set_len(grow_to as u64).unwrap();
            drop(s);
            let mut model = Node::Storage(BTreeMap::new());
            let mut second = vec![0xBB; 10];
            second.resize(grow_to, 0);
            model.children_mut().insert(
                key("second"),
                ("second".into(), Node::Stream(second)),
            );
            model.children_mut().insert(
                key("third"),
                ("third".into(), Node::Stream(vec![0xCC; victim_len])),
            );
            compare(&mut cf, &model, "grow over reused space");
            check_reopen(&backend.image(), &model, "grow over reused space");
            // Shrink and grow again: the cut-off tail must not come back.
            let mut s = cf.open_stream("/third").unwrap();
            s.set_len(5).unwrap();
            s.set_len(victim_len as u64 + 100).unwrap();
            drop(s);
            let mut third = vec![0xCC; 5];
            third.resize(victim_len + 100, 0);
            *model.data_mut(&["third".to_string()]) = third;
            compare(&mut cf, &model, "regrow");
            check_reopen(&backend.image(), &model, "regrow");
        }
    }
}

//===========================================================================//
// Roll-back of a failed allocation.  This is the only test that the library
// did not pass before the change: it entered the sector in the FAT first, so
// a failure while initializing it left a used sector without an owner.

#[test]
#[ignore = "asserts the new order of steps in an allocation; run with --ignored"]
fn failed_allocation_leaves_a_well_formed_image() {
    for &version in &[Version::V3, Version::V4] {
        let (base, content) = holey_image(version);
        let ss = version.sector_len() as u64;
        let old_len = content["/k4"].len() as u64;
        // One sector more than now: exactly one allocation, from a hole.
        let new_len = old_len.div_ceil(ss) * ss + 1;
        // Write-side calls of that allocation: seek and write for the
        // sector's initialization, seek and write for its FAT entry.
        for position in 1..=4u64 {
            let backend = Shared::new(base.clone());
            let mut cf = CompoundFile::open_strict(backend.clone()).unwrap();
            let mut stream = cf.open_stream("/k4").unwrap();
            backend.ctl.fail_at.store(position, Ordering::SeqCst);
            backend.ctl.armed.store(true, Ordering::SeqCst);
            stream.set_len(new_len).unwrap_err();
            backend.ctl.armed.store(false, Ordering::SeqCst);
            assert_eq!(backend.ctl.fired.load(Ordering::SeqCst), 1);
            // Nothing is left behind: same structure, same content.
            let image = backend.image();
            let after =
                check_image(&image, &format!("failed at {}", position));
            let before = check_image(&base, "base");
            assert_eq!(after.fat, before.fat);
            let mut reopened =
                CompoundFile::open_strict(io::Cursor::new(image)).unwrap();
            for (path, want) in &content {
                assert!(read_all(&mut reopened, path).unwrap() == *want);
            }
            // The retry succeeds, from the same hole.
            stream.set_len(new_len).unwrap();
            drop(stream);
            let mut want = content["/k4"].clone();
            want.resize(new_len as usize, 0);
            assert!(read_all(&mut cf, "/k4").unwrap() == want);
            let image = backend.image();
            check_image(&image, "after the retry");
            assert_eq!(image.len(), base.len());
        }
    }
}

//===========================================================================//
// C04: layouts that another writer could have chosen.

/// Moves every sector of a well-formed image to another place, fixing up all
/// references, so that chains run backwards and forwards through the file
/// and free sectors lie anywhere.
fn permute_sectors(image: &[u8], rng: &mut Rng) -> Vec<u8> {
    let layout = check_image(image, "before permuting");
    let (ss, n) = (layout.ss, layout.num_sectors);
    let mut perm: Vec<u32> = (0..n as u32).collect();
    for i in (1..n).rev() {
        perm.swap(i, rng.below(i as u64 + 1) as usize);
    }
    let map = |v: u32| if v <= 0xFFFF_FFFA { perm[v as usize] } else { v };
    let mut out = image.to_vec();
    for i in 0..n {
        let to = (perm[i] as usize + 1) * ss;
        out[to..to + ss].copy_from_slice(&image[(i + 1) * ss..(i + 2) * ss]);
    }
    for offset in
        vec![48usize, 60, 68].into_iter().chain((0..109).map(|i| 76 + 4 * i))
    {
        let v = u32_at(image, offset);
        put_u32(&mut out, offset, map(v));
    }
    for &d in &layout.difat_sectors {
        let at = (perm[d as usize] as usize + 1) * ss;
        for i in 0..ss / 4 {
            let v = u32_at(&out, at + 4 * i);
            put_u32(&mut out, at + 4 * i, map(v));
        }
    }
    let mut new_fat = vec![FREE; layout.fat_sectors.len() * (ss / 4)];
    for i in 0..n {
        new_fat[perm[i] as usize] = map(layout.fat[i]);
    }
    for (k, &f) in layout.fat_sectors.iter().enumerate() {
        let at = (perm[f as usize] as usize + 1) * ss;
        for i in 0..ss / 4 {
            put_u32(&mut out, at + 4 * i, new_fat[k * (ss / 4) + i]);
        }
    }
    let mut id = 0;
    for &d in &layout.dir_chain {
        let at = (perm[d as usize] as usize + 1) * ss;
        for e in 0..ss / 128 {
            let entry = &layout.entries[id];
            if entry.obj_type == 5
                || (entry.obj_type == 2 && entry.size >= 4096)
            {
                put_u32(&mut out, at + 128 * e + 116, map(entry.start));
            }
            id += 1;
        }
    }
    out
}

#[test]
fn permuted_layouts_are_read_and_mutated_correctly() {
    for seed in 1..=8u64 {
        for &version in &[Version::V3, Version::V4] {
            let mut sys = Sys::create(version, seed * 7 + 1000);
            sys.full_checks = false;
            sys.run(60);
            let image = sys.backend.image();
            let mut rng = Rng::new(seed + 77);
            let permuted = permute_sectors(&image, &mut rng);
            assert!(
                permuted != image || image.len() <= 3 * version.sector_len()
            );
            check_reopen(&permuted, &sys.model, "permuted image");
            let mut sys2 =
                Sys::from_image(permuted, sys.model.clone(), seed + 5);
            sys2.run(60);
        }
    }
}

//===========================================================================//
// C13: write-side faults at every position, followed by retries.

fn pattern(len: usize, salt: u8) -> Vec<u8> {
    (0..len)
        .map(|i| (i as u8).wrapping_mul(7).wrapping_add(salt) | 1)
        .collect()
}

/// A file with holes in the FAT and in the MiniFAT.
fn holey_image(version: Version) -> (Vec<u8>, BTreeMap<String, Vec<u8>>) {
    let backend = new_backend();
    let mut cf =
        CompoundFile::create_with_version(version, backend.clone()).unwrap();
    let lens = [300usize, 9000, 1000, 70, 13_000, 5000, 2000, 4096];
    let mut content = BTreeMap::new();
    for (i, &len) in lens.iter().enumerate() {
        let data = pattern(len, i as u8);
        let mut s = cf.create_stream(format!("/k{}", i)).unwrap();
        s.write_all(&data).unwrap();
        s.flush().unwrap();
        content.insert(format!("/k{}", i), data);
    }
    for name in ["/k0", "/k1", "/k6"] {
        cf.remove_stream(name).unwrap();
        content.remove(name);
    }
    drop(cf);
    let image = backend.image();
    check_image(&image, "holey image");
    (image, content)
}

struct FaultRun {
    ctl: Arc<Control>,
    position: u64,
    swallowed: Vec<String>,
}

impl FaultRun {
    /// Runs one API call; a fault that fires during it must be reported.
    fn call<T>(
        &mut self,
        what: &str,
        f: impl FnOnce() -> io::Result<T>,
    ) -> io::Result<T> {
        let before = self.ctl.fired.load(Ordering::SeqCst);
        let result = f();
        let after = self.ctl.fired.load(Ordering::SeqCst);
        if after != before && result.is_ok() {
            self.swallowed
                .push(format!("{} at fault {}", what, self.position));
        }
        result
    }
}

/// Writes all of `data` with plain `write` calls, retrying after errors, and
/// then flushes, retrying again.  Returns true if a flush finally succeeded.
fn write_and_flush<F: Read + Write + Seek>(
    run: &mut FaultRun,
    stream: &mut cfb::Stream<F>,
    data: &[u8],
) -> bool {
    let mut done = 0;
    let mut failures = 0;
    while done < data.len() {
        match run.call("write", || stream.write(&data[done..])) {
            Ok(n) => {
                assert!(n > 0);
                done += n;
            }
            Err(_) => {
                failures += 1;
                if failures > 3 {
                    return false;
                }
            }
        }
    }
    for _ in 0..3 {
        if run.call("flush", || stream.flush()).is_ok() {
            return true;
        }
    }
    false
}

fn read_all<F: Read + Seek>(
    cf: &mut CompoundFile<F>,
    path: &str,
) -> io::Result<Vec<u8>> {
    let mut data = Vec::new();
    cf.open_stream(path)?.read_to_end(&mut data)?;
    Ok(data)
}

/// Reads a stream back with fault injection suspended.
fn read_back(
    cf: &mut CompoundFile<Shared>,
    ctl: &Control,
    path: &str,
) -> io::Result<Vec<u8>> {
    let armed = ctl.armed.swap(false, Ordering::SeqCst);
    let result = read_all(cf, path);
    ctl.armed.store(armed, Ordering::SeqCst);
    result
}

#[test]
fn write_faults_are_reported_and_retries_store_the_data() {
    for &version in &[Version::V3, Version::V4] {
        let (base, content) = holey_image(version);
        let mut position = 0;
        let mut completed = 0;
        loop {
            position += 1;
            let backend = Shared::new(base.clone());
            let mut cf = CompoundFile::open(backend.clone()).unwrap();
            backend.ctl.fail_at.store(position, Ordering::SeqCst);
            backend.ctl.armed.store(true, Ordering::SeqCst);
            let mut run = FaultRun {
                ctl: backend.ctl.clone(),
                position,
                swallowed: Vec::new(),
            };
            let fired =
                |run: &FaultRun| run.ctl.fired.load(Ordering::SeqCst) > 0;

            // 1. A mini stream grows past the cutoff (its mini chain is
            //    released, regular sectors are taken from the holes).
            let data1 = pattern(6000, 0x41);
            let clean = !fired(&run);
            match run.call("open_stream", || cf.open_stream("/k2")) {
                Ok(mut s) => {
                    if write_and_flush(&mut run, &mut s, &data1) {
                        drop(s);
                        let got = read_back(&mut cf, &backend.ctl, "/k2");
                        assert!(
                            got.as_ref().ok() == Some(&data1),
                            "flush said Ok but /k2 reads differently (fault {})",
                            position
                        );
                    } else {
                        assert!(fired(&run));
                    }
                }
                Err(_) => assert!(!clean || fired(&run)),
            }
            // 2. A new large stream.
            let data2 = pattern(5000, 0x42);
            if let Ok(mut s) =
                run.call("create_stream", || cf.create_stream("/new"))
            {
                if write_and_flush(&mut run, &mut s, &data2) {
                    drop(s);
                    let got = read_back(&mut cf, &backend.ctl, "/new");
                    assert!(
                        got.as_ref().ok() == Some(&data2),
                        "flush said Ok but /new reads differently (fault {})",
                        position
                    );
                }
            } else {
                assert!(fired(&run));
            }
            // 3. A large stream grows.
            let clean = !fired(&run);
            let grown = match cf.open_stream("/k4") {
                Ok(mut s) => {
                    run.call("set_len", || s.set_len(13_000 + 3 * 4096))
                }
                Err(e) => Err(e),
            };
            assert!(grown.is_ok() || !clean || fired(&run));
            if grown.is_ok() {
                let mut want = content["/k4"].clone();
                want.resize(13_000 + 3 * 4096, 0);
                let got = read_back(&mut cf, &backend.ctl, "/k4");
                assert!(
                    got.as_ref().ok() == Some(&want),
                    "/k4 after set_len (fault {})",
                    position
                );
            }
            // 4. Release something, then allocate mini sectors.
            let clean = !fired(&run);
            let removed =
                run.call("remove_stream", || cf.remove_stream("/k5"));
            assert!(removed.is_ok() || !clean || fired(&run));
            let data5 = pattern(200, 0x45);
            if let Ok(mut s) =
                run.call("create_stream", || cf.create_stream("/tiny"))
            {
                if write_and_flush(&mut run, &mut s, &data5) {
                    drop(s);
                    let got = read_back(&mut cf, &backend.ctl, "/tiny");
                    assert!(
                        got.as_ref().ok() == Some(&data5),
                        "/tiny (fault {})",
                        position
                    );
                }
            }
            assert!(
                run.swallowed.is_empty(),
                "swallowed faults: {:?}",
                run.swallowed
            );
            let any_fault = fired(&run);

            // No more faults now.  A fresh stream must be storable unless
            // the earlier failure left the file unusable (errors are fine,
            // wrong data is not); untouched streams keep their content.
            backend.ctl.armed.store(false, Ordering::SeqCst);
            let data6 = pattern(9000, 0x46);
            if let Ok(mut s) = cf.create_stream("/after") {
                if s.write_all(&data6).is_ok() && s.flush().is_ok() {
                    drop(s);
                    let got = read_back(&mut cf, &backend.ctl, "/after");
                    assert!(
                        got.as_ref().ok() == Some(&data6),
                        "/after (fault {})",
                        position
                    );
                }
            }
            for name in ["/k3", "/k7"] {
                let got = read_back(&mut cf, &backend.ctl, name);
                assert!(
                    got.as_ref().ok() == Some(&content[name]),
                    "{} changed or unreadable after fault {}: {:?}",
                    name,
                    position,
                    got.as_ref().map(|d| d.len())
                );
            }
            if !any_fault {
                // Past the last write of the script: this is the plain run.
                check_image(&backend.image(), "fault-free run");
                completed += 1;
                if completed >= 2 {
                    break;
                }
            } else if let Ok(mut reopened) =
                CompoundFile::open(io::Cursor::new(backend.image()))
            {
                // Whatever state the failure left behind, reading what
                // reopens never panics.
                let paths: Vec<_> = reopened
                    .walk()
                    .filter(|e| e.is_stream())
                    .map(|e| e.path().to_path_buf())
                    .collect();
                for path in paths {
                    let mut sink = Vec::new();
                    if let Ok(mut s) = reopened.open_stream(&path) {
                        let _ = s.read_to_end(&mut sink);
                    }
                }
            }
            assert!(position < 200_000, "the script never finishes");
        }
        assert!(position > 100, "too few fault positions ({})", position);
    }
}

//===========================================================================//
// C18: chunking, interruptions, backend and buffer size do not matter.

fn pin_times<F: Read + Write + Seek>(cf: &mut CompoundFile<F>) {
    let paths: Vec<_> = cf
        .walk()
        .filter(|e| e.is_storage())
        .map(|e| e.path().to_path_buf())
        .collect();
    let when = UNIX_EPOCH + Duration::from_secs(1_000_000_000);
    for path in paths {
        cf.set_created_time(&path, when).unwrap();
        cf.set_modified_time(&path, when).unwrap();
    }
}

#[test]
fn images_do_not_depend_on_chunking_or_backend() {
    for seed in [3u64, 11, 29] {
        for &version in &[Version::V3, Version::V4] {
            let mut images = Vec::new();
            for variant in 0..3 {
                let mut sys = Sys::create(version, seed);
                sys.full_checks = false;
                if variant == 1 {
                    sys.backend.ctl.chunk.store(7, Ordering::SeqCst);
                    sys.backend.ctl.interrupt_every.store(5, Ordering::SeqCst);
                }
                if variant == 2 {
                    sys.backend.ctl.chunk.store(1, Ordering::SeqCst);
                }
                // Reopening makes new backends; keep the settings.
                for _ in 0..90 {
                    let ctl = sys.backend.ctl.clone();
                    sys.step();
                    if !Arc::ptr_eq(&ctl, &sys.backend.ctl) {
                        let chunk = ctl.chunk.load(Ordering::SeqCst);
                        let every = ctl.interrupt_every.load(Ordering::SeqCst);
                        sys.backend.ctl.chunk.store(chunk, Ordering::SeqCst);
                        sys.backend
                            .ctl
                            .interrupt_every
                            .store(every, Ordering::SeqCst);
                    }
                }
                sys.verify();
                pin_times(&mut sys.cf);
                images.push(sys.backend.image());
            }
            assert!(
                images[0] == images[1],
                "short/interrupted transfers change the image"
            );
            assert!(
                images[0] == images[2],
                "one-byte transfers change the image"
            );
            check_image(&images[0], "chunked");
        }
    }
}

#[test]
fn a_real_file_gives_the_same_image_as_memory() {
    let script = |cf: &mut dyn FnMut(&str, usize, bool)| {
        for i in 0..10 {
            cf(&format!("/s{}", i), 150 * i * i + 30, false);
        }
        for i in [2, 5, 7, 8] {
            cf(&format!("/s{}", i), 0, true);
        }
        for i in 0..6 {
            cf(&format!("/t{}", i), 4000 + 100 * i, false);
        }
    };
    fn apply<F: Read + Write + Seek>(
        cf: &mut CompoundFile<F>,
        path: &str,
        len: usize,
        remove: bool,
    ) {
        if remove {
            cf.remove_stream(path).unwrap();
        } else {
            let mut s = cf.create_stream(path).unwrap();
            s.write_all(&pattern(len, len as u8)).unwrap();
            s.flush().unwrap();
        }
    }
    let backend = new_backend();
    let mut mem =
        CompoundFile::create_with_version(Version::V3, backend.clone())
            .unwrap();
    script(&mut |p, l, r| apply(&mut mem, p, l, r));
    let path = std::env::temp_dir()
        .join(format!("cfb_feature_check_{}.cfb", std::process::id()));
    let file = std::fs::OpenOptions::new()
        .read(true)
        .write(true)
        .create(true)
        .truncate(true)
        .open(&path)
        .unwrap();
    let mut disk =
        CompoundFile::create_with_version(Version::V3, file).unwrap();
    script(&mut |p, l, r| apply(&mut disk, p, l, r));
    disk.flush().unwrap();
    drop(disk);
    let on_disk = std::fs::read(&path).unwrap();
    std::fs::remove_file(&path).unwrap();
    assert!(on_disk == backend.image());
    check_image(&on_disk, "real file");
}

//===========================================================================//
// C11 / C05: damaged allocation tables.

#[test]
fn mutating_damaged_files_never_panics() {
    let mut accepted = 0;
    for seed in 1..=400u64 {
        let version = if seed % 2 == 0 { Version::V3 } else { Version::V4 };
        let (base, _) = holey_image(version);
        let layout = check_image(&base, "base");
        let mut rng = Rng::new(seed);
        let mut image = base.clone();
        // Damage the FAT, the MiniFAT, the directory or the header.
        for _ in 0..1 + rng.below(3) {
            let sector = match rng.below(4) {
                0 => layout.fat_sectors[0],
                1 => layout.minifat_chain[0],
                2 => *rng.pick(&layout.dir_chain),
                _ => u32::MAX,
            };
            let (start, span) = if sector == u32::MAX {
                (40usize, 40usize)
            } else if sector == layout.fat_sectors[0] {
                ((sector as usize + 1) * layout.ss, 4 * layout.num_sectors)
            } else if sector == layout.minifat_chain[0] {
                ((sector as usize + 1) * layout.ss, 4 * 200)
            } else {
                ((sector as usize + 1) * layout.ss, 128 * 8)
            };
            let at = start + 4 * rng.below(span as u64 / 4) as usize;
            let value = match rng.below(6) {
                0 => FREE,
                1 => EOC,
                2 => rng.below(layout.num_sectors as u64 + 2) as u32,
                3 => 0,
                4 => rng.below(300) as u32,
                _ => rng.next() as u32,
            };
            put_u32(&mut image, at, value);
        }
        let backend = Shared::new(image);
        let mut cf = match CompoundFile::open(backend.clone()) {
            Ok(cf) => cf,
            Err(_) => continue,
        };
        accepted += 1;
        let streams: Vec<_> = cf
            .walk()
            .filter(|e| e.is_stream())
            .map(|e| e.path().to_path_buf())
            .collect();
        for round in 0..12 {
            let len = rng.len();
            let data = rng.bytes(len);
            match rng.below(6) {
                0 | 1 => {
                    if let Ok(mut s) =
                        cf.create_stream(format!("/n{}", round % 4))
                    {
                        let _ = s.write_all(&data);
                        let _ = s.flush();
                    }
                }
                2 if !streams.is_empty() => {
                    if let Ok(mut s) = cf.open_stream(rng.pick(&streams)) {
                        let _ = s.set_len(rng.len() as u64);
                        let _ = s.seek(SeekFrom::End(0));
                        let _ = s.write_all(&data);
                        let _ = s.flush();
                    }
                }
                3 if !streams.is_empty() => {
                    let _ = cf.remove_stream(rng.pick(&streams));
                }
                4 => {
                    let _ = cf.create_storage(format!("/dir{}", round));
                }
                _ => {
                    for path in &streams {
                        let mut sink = Vec::new();
                        if let Ok(mut s) = cf.open_stream(path) {
                            let _ = s.read_to_end(&mut sink);
                        }
                    }
                }
            }
        }
        let _ = cf.flush();
    }
    assert!(accepted > 40, "only {} damaged files were accepted", accepted);
}

//===========================================================================//
// C12: read faults while opening (where the free lists are rebuilt).

#[test]
fn read_faults_never_give_wrong_data() {
    let (base, content) = holey_image(Version::V3);
    let mut position = 0;
    loop {
        position += 1;
        let backend = Shared::new(base.clone());
        backend.ctl.fail_reads.store(true, Ordering::SeqCst);
        backend.ctl.fail_at.store(position, Ordering::SeqCst);
        backend.ctl.armed.store(true, Ordering::SeqCst);
        if let Ok(mut cf) = CompoundFile::open(backend.clone()) {
            for _attempt in 0..2 {
                for (path, want) in &content {
                    if let Ok(got) = read_all(&mut cf, path) {
                        assert!(
                            got == *want,
                            "{} wrong after read fault {}",
                            path,
                            position
                        );
                    }
                }
            }
        }
        if backend.ctl.fired.load(Ordering::SeqCst) == 0 {
            break;
        }
    }
    assert!(position > 50);
}

//===========================================================================//
// C14: readers run while a stream handle allocates.

#[test]
fn concurrent_readers_with_an_allocating_writer() {
    let (base, content) = holey_image(Version::V4);
    let mut cf = CompoundFile::open(io::Cursor::new(base)).unwrap();
    let mut writer = cf.create_stream("/grow").unwrap();
    let cf = &cf;
    let done = AtomicBool::new(false);
    std::thread::scope(|scope| {
        for _ in 0..3 {
            scope.spawn(|| {
                while !done.load(Ordering::SeqCst) {
                    for e in cf.walk() {
                        if e.path().to_str() == Some("/k3") {
                            assert_eq!(e.len(), content["/k3"].len() as u64);
                        }
                    }
                    assert!(cf.is_stream("/k4"));
                    assert!(cf.entry("/grow").is_ok());
                    assert_eq!(cf.read_root_storage().count(), 6);
                }
            });
        }
        let chunk = pattern(3000, 9);
        for i in 0..40 {
            writer.write_all(&chunk).unwrap();
            if i % 3 == 0 {
                writer.flush().unwrap();
            }
            if i % 10 == 9 {
                writer.set_len(1000).unwrap();
                writer.seek(SeekFrom::End(0)).unwrap();
            }
        }
        writer.flush().unwrap();
        done.store(true, Ordering::SeqCst);
    });
}
