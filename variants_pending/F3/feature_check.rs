//! Behavioural checks for the red/black colouring of directory entries.
//!
//! Public API and std only.  Every check here is about observable behaviour
//! (results of API calls, and the byte image as judged by a small independent
//! reader of the MS-CFB directory), so the file passes on a library that
//! colours every entry black as well as on one that uses red entries.

use cfb::{CompoundFile, Version};
use std::collections::HashSet;
use std::io::{self, ErrorKind, Read, Seek, SeekFrom, Write};
use std::sync::atomic::{AtomicBool, AtomicI64, AtomicU64, Ordering as AO};
use std::sync::{Arc, Mutex};
use std::time::{Duration, UNIX_EPOCH};

//===========================================================================//
// Small deterministic PRNG (xorshift64*).

struct Rng(u64);

impl Rng {
    fn new(seed: u64) -> Rng {
        Rng(seed.wrapping_mul(0x9E37_79B9_7F4A_7C15) | 1)
    }
    fn next(&mut self) -> u64 {
        let mut x = self.0;
        x ^= x >> 12;
        x ^= x << 25;
        x ^= x >> 27;
        self.0 = x;
        x.wrapping_mul(0x2545_F491_4F6C_DD1D)
    }
    fn below(&mut self, n: usize) -> usize {
        (self.next() % n as u64) as usize
    }
    fn chance(&mut self, percent: usize) -> bool {
        self.below(100) < percent
    }
}

//===========================================================================//
// Backend: a shared byte vector with fault injection and short transfers.

struct Ctl {
    /// Number of backend calls still allowed before one fails; negative means
    /// that no fault is armed.
    countdown: AtomicI64,
    /// Once fired, keep failing until disarmed.
    sticky: AtomicBool,
    fired: AtomicU64,
    /// If nonzero, reads and writes transfer at most this many bytes.
    chunk: AtomicU64,
}

impl Ctl {
    fn new() -> Arc<Ctl> {
        Arc::new(Ctl {
            countdown: AtomicI64::new(-1),
            sticky: AtomicBool::new(false),
            fired: AtomicU64::new(0),
            chunk: AtomicU64::new(0),
        })
    }
    fn arm(&self, after: i64, sticky: bool) {
        self.fired.store(0, AO::SeqCst);
        self.sticky.store(sticky, AO::SeqCst);
        self.countdown.store(after, AO::SeqCst);
    }
    fn disarm(&self) -> bool {
        self.countdown.store(-1, AO::SeqCst);
        self.sticky.store(false, AO::SeqCst);
        self.fired.swap(0, AO::SeqCst) > 0
    }
    fn check(&self) -> io::Result<()> {
        let c = self.countdown.load(AO::SeqCst);
        if c < 0 {
            return Ok(());
        }
        if c == 0 {
            if !self.sticky.load(AO::SeqCst) {
                self.countdown.store(-1, AO::SeqCst);
            }
            self.fired.fetch_add(1, AO::SeqCst);
            return Err(io::Error::new(ErrorKind::Other, "injected fault"));
        }
        self.countdown.store(c - 1, AO::SeqCst);
        Ok(())
    }
    fn limit(&self, len: usize) -> usize {
        let chunk = self.chunk.load(AO::SeqCst) as usize;
        if chunk == 0 {
            len
        } else {
            len.min(chunk)
        }
    }
}

struct Disk {
    data: Arc<Mutex<Vec<u8>>>,
    pos: u64,
    ctl: Arc<Ctl>,
}

impl Disk {
    fn new(bytes: Vec<u8>) -> (Disk, Arc<Mutex<Vec<u8>>>, Arc<Ctl>) {
        let data = Arc::new(Mutex::new(bytes));
        let ctl = Ctl::new();
        (Disk { data: data.clone(), pos: 0, ctl: ctl.clone() }, data, ctl)
    }
}

impl Read for Disk {
    fn read(&mut self, buf: &mut [u8]) -> io::Result<usize> {
        self.ctl.check()?;
        let data = self.data.lock().unwrap();
        let start = (self.pos as usize).min(data.len());
        let n = self.ctl.limit(buf.len().min(data.len() - start));
        buf[..n].copy_from_slice(&data[start..start + n]);
        self.pos += n as u64;
        Ok(n)
    }
}

impl Write for Disk {
    fn write(&mut self, buf: &[u8]) -> io::Result<usize> {
        self.ctl.check()?;
        let mut data = self.data.lock().unwrap();
        let n = self.ctl.limit(buf.len());
        let start = self.pos as usize;
        if data.len() < start + n {
            data.resize(start + n, 0);
        }
        data[start..start + n].copy_from_slice(&buf[..n]);
        self.pos += n as u64;
        Ok(n)
    }
    fn flush(&mut self) -> io::Result<()> {
        self.ctl.check()
    }
}

impl Seek for Disk {
    fn seek(&mut self, pos: SeekFrom) -> io::Result<u64> {
        self.ctl.check()?;
        let len = self.data.lock().unwrap().len() as i64;
        let new = match pos {
            SeekFrom::Start(p) => p as i64,
            SeekFrom::End(d) => len + d,
            SeekFrom::Current(d) => self.pos as i64 + d,
        };
        if new < 0 {
            return Err(io::Error::new(ErrorKind::InvalidInput, "seek < 0"));
        }
        self.pos = new as u64;
        Ok(self.pos)
    }
}

fn snapshot(data: &Arc<Mutex<Vec<u8>>>) -> Vec<u8> {
    data.lock().unwrap().clone()
}

//===========================================================================//
// Abstract model: a tree of storages with case-insensitively unique names.

#[derive(Clone, Debug)]
struct Node {
    name: String,
    bits: u32,
    data: Option<Vec<u8>>, // None for a storage
    kids: Vec<Node>,
}

fn name_key(name: &str) -> (usize, Vec<char>) {
    let upper: Vec<char> =
        name.chars().map(|c| c.to_uppercase().next().unwrap()).collect();
    (name.encode_utf16().count(), upper)
}

fn name_is_valid(name: &str) -> bool {
    name.encode_utf16().count() <= 31
        && !name.contains(|c| c == '/' || c == '\\' || c == ':' || c == '!')
}

impl Node {
    fn root() -> Node {
        Node {
            name: "Root Entry".to_string(),
            bits: 0,
            data: None,
            kids: vec![],
        }
    }
    fn find(&self, names: &[String]) -> Option<&Node> {
        match names.split_first() {
            None => Some(self),
            Some((first, rest)) => self
                .kids
                .iter()
                .find(|k| name_key(&k.name) == name_key(first))
                .and_then(|k| k.find(rest)),
        }
    }
    fn find_mut(&mut self, names: &[String]) -> Option<&mut Node> {
        match names.split_first() {
            None => Some(self),
            Some((first, rest)) => self
                .kids
                .iter_mut()
                .find(|k| name_key(&k.name) == name_key(first))
                .and_then(|k| k.find_mut(rest)),
        }
    }
    fn sorted_kids(&self) -> Vec<&Node> {
        let mut kids: Vec<&Node> = self.kids.iter().collect();
        kids.sort_by_key(|k| name_key(&k.name));
        kids
    }
    /// Pre-order listing: (path, is_stream, len, state bits).
    fn listing(&self, out: &mut Vec<(String, bool, u64, u32)>, path: &str) {
        let len = self.data.as_ref().map(|d| d.len() as u64).unwrap_or(0);
        let shown = if path.is_empty() { "/" } else { path };
        out.push((shown.to_string(), self.data.is_some(), len, self.bits));
        for kid in self.sorted_kids() {
            kid.listing(out, &format!("{}/{}", path, kid.name));
        }
    }
    fn storages(&self, out: &mut Vec<Vec<String>>, here: &[String]) {
        if self.data.is_none() {
            out.push(here.to_vec());
            for kid in self.kids.iter() {
                let mut path = here.to_vec();
                path.push(kid.name.clone());
                kid.storages(out, &path);
            }
        }
    }
    fn streams(&self, out: &mut Vec<Vec<String>>, here: &[String]) {
        if self.data.is_some() {
            out.push(here.to_vec());
        }
        for kid in self.kids.iter() {
            let mut path = here.to_vec();
            path.push(kid.name.clone());
            kid.streams(out, &path);
        }
    }
}

fn join(names: &[String]) -> String {
    format!("/{}", names.join("/"))
}

type Outcome = Result<(), ErrorKind>;

fn model_create(
    root: &mut Node,
    path: &[String],
    stream: bool,
    overwrite: bool,
) -> Outcome {
    if let Some(node) = root.find_mut(path) {
        if stream && overwrite && node.data.is_some() {
            node.data = Some(vec![]);
            return Ok(());
        }
        return Err(ErrorKind::AlreadyExists);
    }
    let (name, parent) = path.split_last().unwrap();
    let parent = match root.find_mut(parent) {
        Some(node) if node.data.is_none() => node,
        _ => return Err(ErrorKind::NotFound),
    };
    if !name_is_valid(name) {
        return Err(ErrorKind::InvalidInput);
    }
    parent.kids.push(Node {
        name: name.clone(),
        bits: 0,
        data: if stream { Some(vec![]) } else { None },
        kids: vec![],
    });
    Ok(())
}

fn model_remove(root: &mut Node, path: &[String], stream: bool) -> Outcome {
    let node = match root.find(path) {
        Some(node) => node,
        None => return Err(ErrorKind::NotFound),
    };
    if path.is_empty()
        || node.data.is_some() != stream
        || !node.kids.is_empty()
    {
        return Err(ErrorKind::InvalidInput);
    }
    let (name, parent) = path.split_last().unwrap();
    let parent = root.find_mut(parent).unwrap();
    parent.kids.retain(|k| name_key(&k.name) != name_key(name));
    Ok(())
}

fn outcome<T>(result: io::Result<T>) -> Outcome {
    result.map(|_| ()).map_err(|e| e.kind())
}

//===========================================================================//
// Independent reader of the directory of a CFB image.  Shares no code with the
// library.  Checks the sibling trees (ordering, no loops, no two adjacent red
// entries), that every allocated entry is reachable exactly once, and that
// unallocated entries are blank.

const NONE: u32 = 0xFFFF_FFFF;

struct RawEntry {
    offset: usize,
    name: String,
    kind: u8,
    red: bool,
    left: u32,
    right: u32,
    child: u32,
    len: u64,
}

#[derive(Default, Debug)]
struct TreeStats {
    entries: usize,
    red: usize,
    max_depth: usize,
}

fn le32(bytes: &[u8], at: usize) -> u32 {
    u32::from_le_bytes([
        bytes[at],
        bytes[at + 1],
        bytes[at + 2],
        bytes[at + 3],
    ])
}

fn raw_directory(bytes: &[u8]) -> Result<Vec<RawEntry>, String> {
    if bytes.len() < 512
        || bytes[0..8] != [0xD0, 0xCF, 0x11, 0xE0, 0xA1, 0xB1, 0x1A, 0xE1]
    {
        return Err("bad signature".into());
    }
    let major = u16::from_le_bytes([bytes[26], bytes[27]]);
    let shift = u16::from_le_bytes([bytes[30], bytes[31]]);
    if !((major == 3 && shift == 9) || (major == 4 && shift == 12)) {
        return Err(format!("version {} with sector shift {}", major, shift));
    }
    let ss = 1usize << shift;
    let sector = |id: u32| -> Result<&[u8], String> {
        let start = (id as usize + 1) * ss;
        bytes
            .get(start..start + ss)
            .ok_or(format!("sector {} out of file", id))
    };
    // FAT, via the DIFAT.
    let mut fat_sectors: Vec<u32> = (0..109)
        .map(|i| le32(bytes, 76 + 4 * i))
        .filter(|&s| s != NONE)
        .collect();
    let mut difat = le32(bytes, 68);
    let mut guard = 0;
    while difat < 0xFFFF_FFFA {
        let sec = sector(difat)?;
        for i in 0..(ss / 4 - 1) {
            let s = le32(sec, 4 * i);
            if s != NONE {
                fat_sectors.push(s);
            }
        }
        difat = le32(sec, ss - 4);
        guard += 1;
        if guard > 10_000 {
            return Err("DIFAT loop".into());
        }
    }
    let mut fat: Vec<u32> = Vec::new();
    for &s in fat_sectors.iter() {
        let sec = sector(s)?;
        for i in 0..ss / 4 {
            fat.push(le32(sec, 4 * i));
        }
    }
    // Directory chain.
    let mut entries = Vec::new();
    let mut dir_sector = le32(bytes, 48);
    let mut seen = HashSet::new();
    while dir_sector != 0xFFFF_FFFE {
        if !seen.insert(dir_sector) {
            return Err("directory chain loop".into());
        }
        let sec = sector(dir_sector)?;
        let base = (dir_sector as usize + 1) * ss;
        for i in 0..ss / 128 {
            let e = &sec[128 * i..128 * (i + 1)];
            let name_len = u16::from_le_bytes([e[64], e[65]]) as usize;
            if name_len > 64 || name_len % 2 != 0 {
                return Err("bad name length".into());
            }
            let units: Vec<u16> = (0..(name_len / 2).saturating_sub(1))
                .map(|j| u16::from_le_bytes([e[2 * j], e[2 * j + 1]]))
                .collect();
            let mut len = le32(e, 120) as u64 | ((le32(e, 124) as u64) << 32);
            if major == 3 {
                len &= 0xFFFF_FFFF;
            }
            entries.push(RawEntry {
                offset: base + 128 * i,
                name: String::from_utf16(&units).map_err(|_| "bad name")?,
                kind: e[66],
                red: match e[67] {
                    0 => true,
                    1 => false,
                    _ => return Err("bad colour byte".into()),
                },
                left: le32(e, 68),
                right: le32(e, 72),
                child: le32(e, 76),
                len,
            });
        }
        dir_sector = *fat
            .get(dir_sector as usize)
            .ok_or("directory sector beyond FAT".to_string())?;
    }
    Ok(entries)
}

/// In-order walk of one sibling tree.  `strict_types` is false when looking at
/// an image left behind by a failed call, where a link may lead to a slot that
/// has not been filled in yet; such slots are skipped.
fn walk_siblings(
    entries: &[RawEntry],
    id: u32,
    parent_red: bool,
    depth: usize,
    strict_types: bool,
    visited: &mut HashSet<u32>,
    order: &mut Vec<u32>,
    stats: &mut TreeStats,
) -> Result<(), String> {
    if id == NONE {
        return Ok(());
    }
    let entry = entries.get(id as usize).ok_or("link out of range")?;
    if entry.kind != 1 && entry.kind != 2 {
        if strict_types {
            return Err(format!(
                "entry {} in tree has type {}",
                id, entry.kind
            ));
        }
        return Ok(());
    }
    if !visited.insert(id) {
        if strict_types {
            return Err(format!("entry {} reached twice", id));
        }
        // A removal that failed half-way can leave a sub-tree linked from two
        // places (the library does this with or without red entries).
        return Ok(());
    }
    if parent_red && entry.red {
        return Err(format!(
            "entry {} and its sibling parent are both red",
            id
        ));
    }
    stats.entries += 1;
    stats.red += entry.red as usize;
    stats.max_depth = stats.max_depth.max(depth);
    walk_siblings(
        entries,
        entry.left,
        entry.red,
        depth + 1,
        strict_types,
        visited,
        order,
        stats,
    )?;
    order.push(id);
    walk_siblings(
        entries,
        entry.right,
        entry.red,
        depth + 1,
        strict_types,
        visited,
        order,
        stats,
    )
}

/// Checks the directory of an image; returns the pre-order listing
/// (path, is_stream, len) decoded from the raw bytes.
fn check_directory(
    bytes: &[u8],
    strict_types: bool,
    stats: &mut TreeStats,
) -> Result<Vec<(String, bool, u64)>, String> {
    let entries = raw_directory(bytes)?;
    let sector_len = if bytes[26] == 3 { 512 } else { 4096 };
    if strict_types && bytes.len() % sector_len != 0 {
        return Err("file length is not a whole number of sectors".into());
    }
    if entries.is_empty() || entries[0].kind != 5 {
        return Err("no root entry".into());
    }
    let mut visited = HashSet::new();
    visited.insert(0u32);
    let mut listing = vec![("/".to_string(), false, 0u64)];
    // (storage id, path); children are expanded in pre-order.
    fn expand(
        entries: &[RawEntry],
        storage: u32,
        path: &str,
        strict_types: bool,
        visited: &mut HashSet<u32>,
        listing: &mut Vec<(String, bool, u64)>,
        stats: &mut TreeStats,
    ) -> Result<(), String> {
        let mut order = Vec::new();
        walk_siblings(
            entries,
            entries[storage as usize].child,
            false,
            1,
            strict_types,
            visited,
            &mut order,
            stats,
        )?;
        for pair in order.windows(2) {
            let a = name_key(&entries[pair[0] as usize].name);
            let b = name_key(&entries[pair[1] as usize].name);
            if a >= b && strict_types {
                return Err(format!(
                    "sibling order violated: {:?} then {:?}",
                    entries[pair[0] as usize].name,
                    entries[pair[1] as usize].name
                ));
            }
        }
        for &id in order.iter() {
            let entry = &entries[id as usize];
            let sub = format!("{}/{}", path, entry.name);
            if entry.kind == 2 {
                if entry.child != NONE {
                    return Err("stream with a child".into());
                }
                listing.push((sub, true, entry.len));
            } else {
                listing.push((sub.clone(), false, 0));
                expand(
                    entries,
                    id,
                    &sub,
                    strict_types,
                    visited,
                    listing,
                    stats,
                )?;
            }
        }
        Ok(())
    }
    expand(&entries, 0, "", strict_types, &mut visited, &mut listing, stats)?;
    if strict_types {
        for (id, entry) in entries.iter().enumerate() {
            let reachable = visited.contains(&(id as u32));
            match entry.kind {
                0 => {
                    let raw = &bytes[entry.offset..entry.offset + 128];
                    // (The library stores a name length of 2, i.e. an empty
                    // name with its terminator, in entries it has freed; that
                    // predates the colouring change and is tolerated here.)
                    let blank = raw[..64].iter().all(|&b| b == 0)
                        && (raw[64] == 0 || raw[64] == 2)
                        && raw[65..68].iter().all(|&b| b == 0)
                        && raw[68..80].iter().all(|&b| b == 0xFF)
                        && raw[80..].iter().all(|&b| b == 0);
                    if !blank {
                        return Err(format!(
                            "free entry {} is not blank: {:?}",
                            id, raw
                        ));
                    }
                    if reachable {
                        return Err(format!("free entry {} is linked", id));
                    }
                }
                _ if !reachable => {
                    return Err(format!("entry {} is allocated but lost", id));
                }
                _ => {}
            }
        }
    }
    Ok(listing)
}

//===========================================================================//
// Comparing a compound file object with the model.

fn verify<F: Read + Seek>(
    cf: &mut CompoundFile<F>,
    model: &Node,
    what: &str,
    with_contents: bool,
) {
    let mut expected = Vec::new();
    model.listing(&mut expected, "");
    let actual: Vec<(String, bool, u64, u32)> = cf
        .walk()
        .map(|e| {
            (
                e.path().to_str().unwrap().to_string(),
                e.is_stream(),
                if e.is_root() { 0 } else { e.len() },
                e.state_bits(),
            )
        })
        .collect();
    assert_eq!(actual, expected, "{}: walk differs from the model", what);
    // Non-recursive listings and lookups.
    let mut storages = Vec::new();
    model.storages(&mut storages, &[]);
    for path in storages.iter() {
        let node = model.find(path).unwrap();
        let names: Vec<String> = cf
            .read_storage(join(path))
            .unwrap()
            .map(|e| e.name().to_string())
            .collect();
        let expected: Vec<String> =
            node.sorted_kids().iter().map(|k| k.name.clone()).collect();
        assert_eq!(names, expected, "{}: listing of {:?}", what, path);
        assert!(cf.is_storage(join(path)), "{}: {:?}", what, path);
    }
    let mut streams = Vec::new();
    model.streams(&mut streams, &[]);
    for path in streams.iter() {
        let node = model.find(path).unwrap();
        // Every name is found under another letter case as well.
        let mut other = path.clone();
        let last = other.pop().unwrap();
        other.push(last.to_uppercase());
        assert!(cf.is_stream(join(&other)), "{}: {:?}", what, other);
        let entry = cf.entry(join(path)).unwrap();
        assert_eq!(entry.name(), node.name, "{}: stored name", what);
        if with_contents {
            let mut data = Vec::new();
            cf.open_stream(join(path))
                .unwrap()
                .read_to_end(&mut data)
                .unwrap();
            assert!(
                &data == node.data.as_ref().unwrap(),
                "{}: contents of {:?} differ",
                what,
                path
            );
        }
    }
}

/// Reopens the image in both modes, compares both with the model, and runs the
/// independent directory check.
fn verify_image(
    bytes: &[u8],
    model: &Node,
    what: &str,
    stats: &mut TreeStats,
) {
    let mut strict =
        CompoundFile::open_strict(io::Cursor::new(bytes.to_vec()))
            .unwrap_or_else(|e| panic!("{}: strict open failed: {}", what, e));
    verify(&mut strict, model, &format!("{} (strict)", what), true);
    let mut permissive = CompoundFile::open(io::Cursor::new(bytes.to_vec()))
        .unwrap_or_else(|e| panic!("{}: open failed: {}", what, e));
    verify(&mut permissive, model, &format!("{} (permissive)", what), true);
    let listing = check_directory(bytes, true, stats)
        .unwrap_or_else(|e| panic!("{}: image check failed: {}", what, e));
    let mut expected = Vec::new();
    model.listing(&mut expected, "");
    let expected: Vec<(String, bool, u64)> =
        expected.into_iter().map(|(p, s, l, _)| (p, s, l)).collect();
    assert_eq!(listing, expected, "{}: raw directory differs", what);
}

//===========================================================================//
// Random histories.

fn make_pool(rng: &mut Rng, count: usize) -> Vec<String> {
    let alphabet: Vec<char> = "abXY01_ .-~éЖ".chars().collect();
    let mut pool: Vec<String> = Vec::new();
    while pool.len() < count {
        let len = match rng.below(10) {
            0 => 31,
            1 => 30,
            2..=5 => 1 + rng.below(3),
            _ => 1 + rng.below(8),
        };
        let name: String =
            (0..len).map(|_| alphabet[rng.below(alphabet.len())]).collect();
        if name == "." || name == ".." {
            continue;
        }
        if pool.iter().all(|n| name_key(n) != name_key(&name)) {
            pool.push(name);
        }
    }
    pool
}

fn flip_case(rng: &mut Rng, name: &str) -> String {
    name.chars()
        .map(|c| {
            if rng.chance(50) {
                c.to_uppercase().next().unwrap()
            } else {
                c.to_lowercase().next().unwrap()
            }
        })
        .collect()
}

fn random_len(rng: &mut Rng) -> usize {
    match rng.below(16) {
        0 => 0,
        1 => 63,
        2 => 64,
        3 => 65,
        4 => 4095,
        5 => 4096,
        6 => 4097,
        7 => 4096 + rng.below(6000),
        _ => rng.below(300),
    }
}

fn random_bytes(rng: &mut Rng, len: usize) -> Vec<u8> {
    (0..len).map(|_| (rng.next() >> 32) as u8 | 1).collect()
}

/// Picks a path for the next operation: mostly an existing storage plus a pool
/// name (which may or may not exist there).
fn pick_path(rng: &mut Rng, model: &Node, pool: &[String]) -> Vec<String> {
    let mut storages = Vec::new();
    model.storages(&mut storages, &[]);
    // Prefer the root and the first few storages so that sibling trees get big.
    let index = if rng.chance(60) { 0 } else { rng.below(storages.len()) };
    let mut path = storages[index].clone();
    let name = &pool[rng.below(pool.len())];
    path.push(if rng.chance(30) {
        flip_case(rng, name)
    } else {
        name.clone()
    });
    path
}

fn pin_times<F: Read + Write + Seek>(cf: &mut CompoundFile<F>, path: &str) {
    let when = UNIX_EPOCH + Duration::from_secs(1_500_000_000);
    cf.set_created_time(path, when).unwrap();
    cf.set_modified_time(path, when).unwrap();
}

/// Applies one random operation to both the file and the model and checks
/// that they agree on success versus error and on the error kind.
fn random_op<F: Read + Write + Seek>(
    rng: &mut Rng,
    cf: &mut CompoundFile<F>,
    model: &mut Node,
    pool: &[String],
    bias_remove: bool,
) -> String {
    let path = pick_path(rng, model, pool);
    let text = join(&path);
    let choice = rng.below(100);
    let remove_weight = if bias_remove { 55 } else { 30 };
    if choice < remove_weight {
        // Removal of whatever is there (or of nothing).
        let is_stream = match model.find(&path) {
            Some(node) => node.data.is_some() != rng.chance(5),
            None => rng.chance(50),
        };
        let expected = model_remove(model, &path, is_stream);
        let actual = if is_stream {
            outcome(cf.remove_stream(&text))
        } else {
            outcome(cf.remove_storage(&text))
        };
        assert_eq!(
            actual, expected,
            "remove {:?} (stream: {})",
            text, is_stream
        );
        format!("remove {} stream={} -> {:?}", text, is_stream, actual)
    } else if choice < remove_weight + 3 {
        // Recursive removal of a non-root storage, when the path names one.
        match model.find(&path) {
            Some(node) if node.data.is_none() => {
                cf.remove_storage_all(&text).unwrap();
                let (name, parent) = path.split_last().unwrap();
                let parent = model.find_mut(parent).unwrap();
                parent.kids.retain(|k| name_key(&k.name) != name_key(name));
                format!("remove_storage_all {}", text)
            }
            _ => {
                let expected = model_remove(model, &path, false);
                let actual = outcome(cf.remove_storage(&text));
                assert_eq!(actual, expected, "remove_storage {:?}", text);
                format!("remove_storage {} -> {:?}", text, actual)
            }
        }
    } else if choice < remove_weight + 15 {
        let expected = model_create(model, &path, false, false);
        let actual = outcome(cf.create_storage(&text));
        assert_eq!(actual, expected, "create_storage {:?}", text);
        if actual.is_ok() {
            pin_times(cf, &text);
        }
        format!("create_storage {} -> {:?}", text, actual)
    } else if choice < remove_weight + 18 {
        // Invalid names and missing parents change nothing.
        let mut bad = path.clone();
        let expected_kind = if rng.chance(50) {
            let last = bad.pop().unwrap();
            let head: String = last.chars().take(3).collect();
            bad.push(format!("{}:", head));
            ErrorKind::InvalidInput
        } else {
            bad.insert(bad.len() - 1, "no such storage".to_string());
            ErrorKind::NotFound
        };
        let text = join(&bad);
        if model.find(&bad[..bad.len() - 1]).map(|n| n.data.is_some())
            == Some(true)
        {
            return "skipped".to_string();
        }
        let actual = if rng.chance(50) {
            outcome(cf.create_storage(&text))
        } else {
            outcome(cf.create_new_stream(&text))
        };
        assert_eq!(actual, Err(expected_kind), "bad create {:?}", text);
        format!("bad create {} -> {:?}", text, actual)
    } else if choice < remove_weight + 24 {
        // Resize or append through a handle on an existing stream.
        let mut streams = Vec::new();
        model.streams(&mut streams, &[]);
        if streams.is_empty() {
            return "skipped".to_string();
        }
        let path = streams[rng.below(streams.len())].clone();
        let text = join(&path);
        let node = model.find_mut(&path).unwrap();
        let data = node.data.as_mut().unwrap();
        let mut stream = cf.open_stream(&text).unwrap();
        if rng.chance(50) {
            let new_len = random_len(rng);
            stream.set_len(new_len as u64).unwrap();
            data.resize(new_len, 0);
            format!("set_len {} {}", text, new_len)
        } else {
            let more_len = random_len(rng) % 700;
            let more = random_bytes(rng, more_len);
            stream.seek(SeekFrom::End(0)).unwrap();
            stream.write_all(&more).unwrap();
            stream.flush().unwrap();
            data.extend_from_slice(&more);
            format!("append {} {}", text, more.len())
        }
    } else if choice < remove_weight + 28 {
        let mut all = Vec::new();
        model.streams(&mut all, &[]);
        model.storages(&mut all, &[]);
        let path = all[rng.below(all.len())].clone();
        let bits = rng.next() as u32;
        cf.set_state_bits(join(&path), bits).unwrap();
        model.find_mut(&path).unwrap().bits = bits;
        format!("set_state_bits {}", join(&path))
    } else {
        let overwrite = rng.chance(50);
        let expected = model_create(model, &path, true, overwrite);
        let result = if overwrite {
            cf.create_stream(&text)
        } else {
            cf.create_new_stream(&text)
        };
        let mut written = 0;
        let actual = match result {
            Ok(mut stream) => {
                let new_len = random_len(rng);
                let bytes = random_bytes(rng, new_len);
                stream.write_all(&bytes).unwrap();
                stream.flush().unwrap();
                written = bytes.len();
                model.find_mut(&path).unwrap().data = Some(bytes);
                Ok(())
            }
            Err(e) => Err(e.kind()),
        };
        assert_eq!(actual, expected, "create stream {:?}", text);
        format!(
            "create_stream {} ow={} len={} -> {:?}",
            text, overwrite, written, actual
        )
    }
}

fn versions() -> [Version; 2] {
    [Version::V3, Version::V4]
}

//===========================================================================//
// Test 1: random histories against the model; after every step the live object
// and the byte image (strict and permissive reopen, independent directory
// check) must agree with the model.  Now and then work continues on a reopened
// copy of the image.

#[test]
fn random_histories_match_model_and_reopen_strictly() {
    let mut total = TreeStats::default();
    for &version in versions().iter() {
        for seed in 0..6u64 {
            let mut rng = Rng::new(1000 + seed);
            let pool = make_pool(&mut rng, 40);
            let (disk, mut data, _ctl) = Disk::new(Vec::new());
            let mut cf =
                CompoundFile::create_with_version(version, disk).unwrap();
            let mut model = Node::root();
            let steps = 260;
            for step in 0..steps {
                // Grow first, then shrink, then mixed.
                let bias_remove = (step / 60) % 2 == 1;
                let log = random_op(
                    &mut rng,
                    &mut cf,
                    &mut model,
                    &pool,
                    bias_remove,
                );
                let what = format!(
                    "{:?} seed {} step {} [{}]",
                    version, seed, step, log
                );
                verify(&mut cf, &model, &what, step % 8 == 0);
                let bytes = snapshot(&data);
                let mut stats = TreeStats::default();
                verify_image(&bytes, &model, &what, &mut stats);
                total.entries += stats.entries;
                total.red += stats.red;
                total.max_depth = total.max_depth.max(stats.max_depth);
                if rng.chance(4) {
                    // Continue on the bytes alone, as after a crash.
                    let (disk, new_data, _ctl) = Disk::new(bytes);
                    drop(cf);
                    cf = if rng.chance(50) {
                        CompoundFile::open_strict(disk).unwrap()
                    } else {
                        CompoundFile::open(disk).unwrap()
                    };
                    data = new_data;
                }
            }
        }
    }
    eprintln!("random histories: {:?}", total);
}

//===========================================================================//
// Test 2: a file whose sibling trees were laid out by "another writer" as
// balanced trees with red entries on alternating levels.  Every order of
// removals and insertions on it must keep the image strictly valid.

/// Rewrites the directory of `bytes` the way another writer might have laid
/// it out.  Without `random`: the children of every storage form a balanced
/// tree, red on odd levels (for 2^k-1 children that is a textbook red-black
/// tree).  With `random`: a tree of random shape, where every entry below a
/// black one is red or black at random.  Either way the top of each tree is
/// black and no red entry has a red child.
fn relink(bytes: &mut Vec<u8>, mut random: Option<&mut Rng>) {
    let entries = raw_directory(bytes).unwrap();
    fn collect(entries: &[RawEntry], id: u32, out: &mut Vec<u32>) {
        if id != NONE {
            collect(entries, entries[id as usize].left, out);
            out.push(id);
            collect(entries, entries[id as usize].right, out);
        }
    }
    fn build(
        entries: &[RawEntry],
        bytes: &mut Vec<u8>,
        ids: &[u32],
        depth: usize,
        above_red: bool,
        random: &mut Option<&mut Rng>,
    ) -> u32 {
        if ids.is_empty() {
            return NONE;
        }
        let (mid, red) = match random {
            Some(rng) => (
                if rng.chance(50) {
                    rng.below(ids.len())
                } else {
                    ids.len() / 2
                },
                depth > 0 && !above_red && rng.chance(50),
            ),
            None => (ids.len() / 2, depth % 2 == 1),
        };
        let left = build(entries, bytes, &ids[..mid], depth + 1, red, random);
        let right =
            build(entries, bytes, &ids[mid + 1..], depth + 1, red, random);
        let at = entries[ids[mid] as usize].offset;
        bytes[at + 67] = if red { 0 } else { 1 };
        bytes[at + 68..at + 72].copy_from_slice(&left.to_le_bytes());
        bytes[at + 72..at + 76].copy_from_slice(&right.to_le_bytes());
        ids[mid]
    }
    for entry in entries.iter() {
        if entry.kind == 1 || entry.kind == 5 {
            let mut ids = Vec::new();
            collect(&entries, entry.child, &mut ids);
            let top = build(&entries, bytes, &ids, 0, false, &mut random);
            let at = entry.offset;
            bytes[at + 76..at + 80].copy_from_slice(&top.to_le_bytes());
        }
    }
}

#[test]
fn foreign_red_black_layout_survives_any_removal_order() {
    let mut total = TreeStats::default();
    for &version in versions().iter() {
        for seed in 0..20u64 {
            let mut rng = Rng::new(77_000 + seed);
            let pool = make_pool(&mut rng, 45);
            // Build a file with 31 (a perfect tree), 15 or some other number
            // of children in the root and in one sub-storage.
            let counts = [31usize, 15, 7, 22, 40, 3, 12, 27, 9, 36];
            let count = counts[seed as usize % counts.len()];
            let (disk, data, _ctl) = Disk::new(Vec::new());
            let mut cf =
                CompoundFile::create_with_version(version, disk).unwrap();
            let mut model = Node::root();
            cf.create_storage("/sub").unwrap();
            pin_times(&mut cf, "/sub");
            model_create(&mut model, &["sub".to_string()], false, false)
                .unwrap();
            for (i, name) in pool.iter().take(count).enumerate() {
                for parent in [vec![], vec!["sub".to_string()]] {
                    let mut path: Vec<String> = parent;
                    path.push(name.clone());
                    if model.find(&path).is_some() {
                        continue;
                    }
                    if i % 5 == 4 {
                        cf.create_storage(join(&path)).unwrap();
                        pin_times(&mut cf, &join(&path));
                        model_create(&mut model, &path, false, false).unwrap();
                    } else {
                        let bytes = random_bytes(&mut rng, 10 + i * 7);
                        let mut s = cf.create_new_stream(join(&path)).unwrap();
                        s.write_all(&bytes).unwrap();
                        s.flush().unwrap();
                        model_create(&mut model, &path, true, false).unwrap();
                        model.find_mut(&path).unwrap().data = Some(bytes);
                    }
                }
            }
            drop(cf);
            let mut bytes = snapshot(&data);
            // Even seeds: balanced and alternating; odd seeds: random.
            relink(
                &mut bytes,
                if seed % 2 == 0 { None } else { Some(&mut rng) },
            );
            let mut stats = TreeStats::default();
            verify_image(&bytes, &model, "relinked image", &mut stats);
            assert!(stats.red > 0, "the relinked image has red entries");
            // Now mutate it: removals first, then a mix.
            let (disk, data, _ctl) = Disk::new(bytes);
            let mut cf = if seed % 4 < 2 {
                CompoundFile::open_strict(disk).unwrap()
            } else {
                CompoundFile::open(disk).unwrap()
            };
            for step in 0..(count * 3) {
                let log = random_op(
                    &mut rng,
                    &mut cf,
                    &mut model,
                    &pool,
                    step < count * 2,
                );
                let what = format!(
                    "foreign {:?} seed {} step {} [{}]",
                    version, seed, step, log
                );
                verify(&mut cf, &model, &what, step % 8 == 0);
                let mut stats = TreeStats::default();
                verify_image(&snapshot(&data), &model, &what, &mut stats);
                total.entries += stats.entries;
                total.red += stats.red;
                total.max_depth = total.max_depth.max(stats.max_depth);
            }
        }
    }
    eprintln!("foreign layout: {:?}", total);
}

//===========================================================================//
// Test 2b: every sibling tree of up to six entries, in every shape and every
// colouring that has a black top and no red entry below a red one, with each
// of its entries removed in turn (and then put back).

#[derive(Clone)]
enum Shape {
    Leaf,
    Fork(Box<Shape>, Box<Shape>),
}

fn shapes(n: usize) -> Vec<Shape> {
    if n == 0 {
        return vec![Shape::Leaf];
    }
    let mut out = Vec::new();
    for left_count in 0..n {
        for left in shapes(left_count) {
            for right in shapes(n - 1 - left_count) {
                out.push(Shape::Fork(Box::new(left.clone()), Box::new(right)));
            }
        }
    }
    out
}

/// Lays `shape` over the entries `ids` (in name order); returns the top, or
/// None if the colouring `reds` (bit i: i-th name is red) is not allowed.
fn lay_out(
    shape: &Shape,
    ids: &[u32],
    first: usize,
    reds: u32,
    above_red: Option<bool>,
    links: &mut Vec<(u32, bool, u32, u32)>,
) -> Option<u32> {
    let (left, right) = match shape {
        Shape::Leaf => return Some(NONE),
        Shape::Fork(left, right) => (left, right),
    };
    fn size(shape: &Shape) -> usize {
        match shape {
            Shape::Leaf => 0,
            Shape::Fork(l, r) => 1 + size(l) + size(r),
        }
    }
    let index = first + size(left);
    let red = reds & (1 << index) != 0;
    match above_red {
        None if red => return None,
        Some(true) if red => return None,
        _ => {}
    }
    let l = lay_out(left, ids, first, reds, Some(red), links)?;
    let r = lay_out(right, ids, index + 1, reds, Some(red), links)?;
    links.push((ids[index], red, l, r));
    Some(ids[index])
}

#[test]
fn every_small_foreign_tree_survives_every_removal() {
    let names = ["a", "b", "c", "d", "e", "f"];
    let mut cases = 0;
    for &version in versions().iter() {
        for n in 1..=names.len() {
            // The entries, made by the library; links and colours are then
            // overwritten for every case.
            let (disk, data, _ctl) = Disk::new(Vec::new());
            let mut cf =
                CompoundFile::create_with_version(version, disk).unwrap();
            let mut model = Node::root();
            for (i, name) in names.iter().take(n).enumerate() {
                let path = vec![name.to_string()];
                let bytes = vec![b'A' + i as u8; 10 + 70 * i];
                let mut stream = cf.create_new_stream(join(&path)).unwrap();
                stream.write_all(&bytes).unwrap();
                stream.flush().unwrap();
                model_create(&mut model, &path, true, false).unwrap();
                model.find_mut(&path).unwrap().data = Some(bytes);
            }
            drop(cf);
            let base = snapshot(&data);
            let entries = raw_directory(&base).unwrap();
            let ids: Vec<u32> = names
                .iter()
                .take(n)
                .map(|name| {
                    entries.iter().position(|e| e.name == *name).unwrap()
                        as u32
                })
                .collect();
            for shape in shapes(n) {
                for reds in 0..(1u32 << n) {
                    let mut links = Vec::new();
                    let top =
                        match lay_out(&shape, &ids, 0, reds, None, &mut links)
                        {
                            Some(top) => top,
                            None => continue,
                        };
                    let mut image = base.clone();
                    for &(id, red, left, right) in links.iter() {
                        let at = entries[id as usize].offset;
                        image[at + 67] = if red { 0 } else { 1 };
                        image[at + 68..at + 72]
                            .copy_from_slice(&left.to_le_bytes());
                        image[at + 72..at + 76]
                            .copy_from_slice(&right.to_le_bytes());
                    }
                    let at = entries[0].offset;
                    image[at + 76..at + 80]
                        .copy_from_slice(&top.to_le_bytes());
                    let what = format!(
                        "{:?} n {} reds {:b} links {:?}",
                        version, n, reds, links
                    );
                    let mut stats = TreeStats::default();
                    verify_image(&image, &model, &what, &mut stats);
                    for victim in 0..n {
                        cases += 1;
                        let what =
                            format!("{} victim {}", what, names[victim]);
                        let path = vec![names[victim].to_string()];
                        let (disk, data, _ctl) = Disk::new(image.clone());
                        let mut cf = CompoundFile::open_strict(disk).unwrap();
                        let mut model = model.clone();
                        cf.remove_stream(join(&path)).unwrap();
                        model_remove(&mut model, &path, true).unwrap();
                        verify(&mut cf, &model, &what, true);
                        verify_image(
                            &snapshot(&data),
                            &model,
                            &what,
                            &mut stats,
                        );
                        // Put it back, as a storage this time.
                        cf.create_storage(join(&path)).unwrap();
                        model_create(&mut model, &path, false, false).unwrap();
                        verify(&mut cf, &model, &what, false);
                        verify_image(
                            &snapshot(&data),
                            &model,
                            &what,
                            &mut stats,
                        );
                    }
                }
            }
        }
    }
    eprintln!("small foreign trees: {} removals", cases);
}

//===========================================================================//
// Test 3: a failing backend at every position of every namespace operation.
// The failed call must report an error; nothing may panic or hang; what the
// failed call leaves behind must never contain two adjacent red entries; and
// the live object must agree with its own bytes about which objects exist.

fn live_listing<F>(cf: &CompoundFile<F>, what: &str) -> Vec<(String, bool)> {
    let listing: Vec<(String, bool)> = cf
        .walk()
        .take(100_000)
        .map(|e| (e.path().to_str().unwrap().to_string(), e.is_stream()))
        .collect();
    assert!(listing.len() < 100_000, "{}: walk does not terminate", what);
    listing
}

/// The image left behind by a failed call may be incomplete in ways that have
/// nothing to do with colours (a half-initialised sector, a sub-tree linked
/// twice); the one thing demanded of it here is that no two entries linked as
/// siblings are both red.
fn no_adjacent_red(bytes: &[u8], what: &str) {
    let mut stats = TreeStats::default();
    if let Err(problem) = check_directory(bytes, false, &mut stats) {
        assert!(!problem.contains("both red"), "{}: {}", what, problem);
    }
}

/// True if some entry of the image is the target of more than one link.
fn linked_twice(bytes: &[u8]) -> bool {
    let entries = match raw_directory(bytes) {
        Ok(entries) => entries,
        Err(_) => return false,
    };
    let mut targets = HashSet::new();
    entries
        .iter()
        .filter(|e| e.kind != 0)
        .flat_map(|e| [e.left, e.right, e.child])
        .filter(|&id| id != NONE)
        .any(|id| !targets.insert(id))
}

#[derive(Clone, Debug)]
enum NsOp {
    RemoveStream(String),
    RemoveStorage(String),
    CreateStorage(String),
    CreateStream(String),
}

fn run_ns_op(
    cf: &mut CompoundFile<Disk>,
    ctl: &Ctl,
    op: &NsOp,
) -> (Outcome, bool) {
    // The fault is disarmed before a returned stream handle is dropped, so
    // that the verdict is about the call itself.
    match op {
        NsOp::RemoveStream(p) => {
            let r = outcome(cf.remove_stream(p));
            (r, ctl.disarm())
        }
        NsOp::RemoveStorage(p) => {
            let r = outcome(cf.remove_storage(p));
            (r, ctl.disarm())
        }
        NsOp::CreateStorage(p) => {
            let r = outcome(cf.create_storage(p));
            (r, ctl.disarm())
        }
        NsOp::CreateStream(p) => {
            let r = cf.create_new_stream(p);
            let fired = ctl.disarm();
            (outcome(r), fired)
        }
    }
}

fn fault_sweep(foreign: bool) {
    let mut positions = 0usize;
    let mut retries = 0usize;
    let mut total = TreeStats::default();
    for &version in versions().iter() {
        for seed in 0..4u64 {
            let mut rng = Rng::new(5_000 + seed);
            let pool = make_pool(&mut rng, 30);
            // A starting image: either built by the library alone, or relinked
            // into balanced trees with red entries on alternating levels.
            let (disk, data, _ctl) = Disk::new(Vec::new());
            let mut cf =
                CompoundFile::create_with_version(version, disk).unwrap();
            let mut model = Node::root();
            for _ in 0..70 {
                random_op(&mut rng, &mut cf, &mut model, &pool, false);
            }
            drop(cf);
            let mut image = snapshot(&data);
            if foreign {
                relink(
                    &mut image,
                    if seed % 2 == 0 { None } else { Some(&mut rng) },
                );
            }
            let mut stats = TreeStats::default();
            verify_image(&image, &model, "fault test start", &mut stats);

            for step in 0..45 {
                // Choose a namespace operation that will succeed.
                let path = pick_path(&mut rng, &model, &pool);
                let text = join(&path);
                let op = match model.find(&path) {
                    Some(node) if node.data.is_some() => {
                        NsOp::RemoveStream(text)
                    }
                    Some(node) if node.kids.is_empty() => {
                        NsOp::RemoveStorage(text)
                    }
                    Some(_) => continue,
                    None if rng.chance(30) => NsOp::CreateStorage(text),
                    None => NsOp::CreateStream(text),
                };
                let sticky = rng.chance(50);
                let mut k = 0;
                loop {
                    let (disk, data, ctl) = Disk::new(image.clone());
                    let mut cf = CompoundFile::open(disk).unwrap();
                    ctl.arm(k, sticky);
                    let (result, fired) = run_ns_op(&mut cf, &ctl, &op);
                    let what = format!(
                        "{:?} seed {} step {} {:?} fault at {} (sticky {})",
                        version, seed, step, op, k, sticky
                    );
                    if !fired {
                        // The operation ran to completion: this is the
                        // fault-free outcome, checked in full.
                        assert_eq!(result, Ok(()), "{}", what);
                        match &op {
                            NsOp::RemoveStream(_) => {
                                model_remove(&mut model, &path, true).unwrap()
                            }
                            NsOp::RemoveStorage(_) => {
                                model_remove(&mut model, &path, false).unwrap()
                            }
                            NsOp::CreateStorage(p) => {
                                pin_times(&mut cf, p);
                                model_create(&mut model, &path, false, false)
                                    .unwrap()
                            }
                            NsOp::CreateStream(_) => {
                                model_create(&mut model, &path, true, false)
                                    .unwrap()
                            }
                        }
                        verify(&mut cf, &model, &what, true);
                        image = snapshot(&data);
                        let mut stats = TreeStats::default();
                        verify_image(&image, &model, &what, &mut stats);
                        total.entries += stats.entries;
                        total.red += stats.red;
                        break;
                    }
                    positions += 1;
                    assert!(result.is_err(), "{}: fault was swallowed", what);
                    // After the failure: no hang, no adjacent red entries in
                    // whatever is linked, and memory agrees with the bytes.
                    let after = snapshot(&data);
                    no_adjacent_red(
                        &after,
                        &format!("{}: image after fault", what),
                    );
                    live_listing(&cf, &what);
                    // Retrying and carrying on must not panic or hang either.
                    // (One state is left out: a removal that failed after
                    // giving the removed entry's right sub-tree to its left
                    // sibling.  Retrying from there makes the unchanged
                    // library link an entry to itself, see the notes; that is
                    // independent of colours.)
                    if linked_twice(&after) {
                        k += 1;
                        continue;
                    }
                    retries += 1;
                    let (retry, _) = run_ns_op(&mut cf, &ctl, &op);
                    let live_after_retry = live_listing(
                        &cf,
                        &format!("{} retry {:?}", what, retry),
                    );
                    let after_retry = snapshot(&data);
                    no_adjacent_red(
                        &after_retry,
                        &format!("{}: image after retry", what),
                    );
                    if let Ok(reopened) = CompoundFile::open_strict(
                        io::Cursor::new(after_retry.clone()),
                    ) {
                        if retry.is_ok() {
                            assert_eq!(
                                live_listing(&reopened, &what),
                                live_after_retry,
                                "{}: after a successful retry the bytes disagree with the live object",
                                what
                            );
                        }
                    }
                    let _ = cf.create_storage("/after fault");
                    let _ = cf.remove_storage("/after fault");
                    live_listing(&cf, &what);
                    k += 1;
                    assert!(k < 10_000);
                }
            }
        }
    }
    eprintln!(
        "fault positions exercised: {} ({} retried), {:?}",
        positions, retries, total
    );
    assert!(positions > 500 && retries > 400);
}

#[test]
fn faults_at_every_position_of_namespace_operations() {
    fault_sweep(false);
}

#[test]
fn foreign_red_black_layout_with_faults_at_every_position() {
    fault_sweep(true);
}

//===========================================================================//
// Test 4: the same history gives the same bytes however the backend splits
// transfers, and the same logical outcome for both versions.

#[test]
fn same_history_same_bytes_with_short_transfers() {
    for &version in versions().iter() {
        let mut images = Vec::new();
        for &chunk in [0u64, 1, 7, 100].iter() {
            let mut rng = Rng::new(31_337);
            let pool = make_pool(&mut rng, 25);
            let (disk, data, ctl) = Disk::new(Vec::new());
            ctl.chunk.store(chunk, AO::SeqCst);
            let mut cf =
                CompoundFile::create_with_version(version, disk).unwrap();
            let mut model = Node::root();
            for _ in 0..150 {
                random_op(&mut rng, &mut cf, &mut model, &pool, false);
            }
            verify(&mut cf, &model, "short transfers", true);
            drop(cf);
            images.push(snapshot(&data));
        }
        for image in images.iter().skip(1) {
            assert!(image == &images[0], "{:?}: images differ", version);
        }
    }
}
