#!/usr/bin/env python3
"""try_variants.py <id>=<patch> ... : each behaviour-preserving patch is applied to a scratch copy of /repo and judged by
all sixteen checks in-process (as regress.py does); every line printed is a false alarm."""
import json, sys
sys.path.insert(0, "/verif/tools")
import regress
from multiprocessing import Pool

if __name__ == "__main__":
    cases = []
    for a in sys.argv[1:]:
        name, patch = a.split("=", 1)
        cases.append(("variant", name, patch, regress.ALL))
    with Pool(min(16, len(cases))) as pool:
        for kind, name, err, by in pool.map(regress.work, cases):
            al = {p: v for p, v in by.items() if v}
            print("%s: %s" % (name, err or ((json.dumps(al, indent=1) if __import__("os").environ.get("FULL") else json.dumps(al, indent=1)[:3000]) if al else "silent")))
