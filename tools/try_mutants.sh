#!/bin/bash
# try_mutants.sh <pid>... : for each /tmp/wt9-<pid>/_seed/patch<k>.diff: apply to /repo, run ./check <pid>, revert; one line per mutant
for id in "$@"; do for k in 1 2 3; do
  P=${WTP:-/tmp/wt9}-$id/_seed/patch$k.diff; [ -f $P ] || continue
  cd /repo; git apply $P 2>/dev/null || { echo "$id m$k patch does not apply"; continue; }
  out=$(cd /verif && ./check $id 2>&1); rc=$?
  git checkout -q -- .
  rules=$(echo "$out" | grep -oE "^\s+\[R-[A-Z0-9.()a-z -]+\]" | sort -u | tr -d ' \n')
  echo "$id m$k rc=$rc $rules"
done; done
