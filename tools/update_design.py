#!/usr/bin/env python3
"""Splices the as-built sections (9, 10, Appendix B) into DESIGN.md; Appendix B is generated from seeded/*/meta.json."""
import json, glob, os, re
D = '/verif/DESIGN.md'
s = open(D).read()
# drop earlier generated parts
s = re.sub(r"\n## 9\. As built:.*?(?=\n## Appendix A)", "\n", s, flags=re.S)
s = re.sub(r"\n## Appendix B — seeded changes.*\Z", "\n", s, flags=re.S)
sec9 = open('/verif/tools/design_sec9.md').read()
sec10 = open('/verif/tools/design_sec10.md').read()
s = s.replace("\n## Appendix A", "\n" + sec9 + "\n---------------------------------------------------------------------------\n\n" + sec10 + "\n---------------------------------------------------------------------------\n\n## Appendix A", 1)
rows = []
for d in sorted(glob.glob('/verif/seeded/*/'), key=lambda p: (os.path.basename(p[:-1]).split('-')[0], int((re.match(r'\d+', os.path.basename(p[:-1]).split('-')[1]) or re.match(r'(99)', '99')).group(0)), os.path.basename(p[:-1]))):
    m = json.load(open(d + 'meta.json'))
    sid = os.path.basename(d[:-1])
    cr = m.get('check_result', '')
    missed = bool(m.get('initially_missed')) or ('MISSED' in cr.upper().split('CAUGHT')[0] if cr else False)
    summ = re.sub(r"\s+", " ", m.get('summary', ''))[:230].replace('|', '/')
    needs = re.sub(r"\s+", " ", m.get('needs_to_manifest', ''))[:150].replace('|', '/')
    res = re.sub(r"\s+", " ", cr)[:260].replace('|', '/')
    rows.append("| %s%s | %s | %s | %s |" % (sid, ' †' if missed else '', summ, needs, res))
app = ["## Appendix B — seeded changes kept under `seeded/` († = missed by the check of its property on first contact)", "",
       "| id | change | needs, to manifest | verdict of `./check <property>` |", "|----|--------|--------------------|--------------------------------|"] + rows
s = s.rstrip("\n") + "\n\n---------------------------------------------------------------------------\n\n" + "\n".join(app) + "\n"
open(D, 'w').write(s)
print(len(s.splitlines()), 'lines;', len(rows), 'seeds')
