#!/usr/bin/env python3
"""try_changes.py <worktree-prefix> <group>... : <prefix><group>/_seed/patch<k>.diff, property named per change in meta.json.
Each patch is applied to a scratch copy of /repo and judged by all sixteen checks in-process; one line per change:
the rules of its own property that report it, and (for information) other properties that do."""
import json, os, sys
sys.path.insert(0, "/verif/tools")
import regress
from multiprocessing import Pool

if __name__ == "__main__":
    prefix, groups = sys.argv[1], sys.argv[2:]
    cases, prop = [], {}
    for g in groups:
        d = "%s%s/_seed" % (prefix, g)
        meta = json.load(open(d + "/meta.json"))
        for m in meta.get("mutants", []):
            k = str(m.get("k"))
            p = "%s/patch%s.diff" % (d, k)
            if os.path.exists(p):
                name = "%s m%s" % (g, k)
                prop[name] = (m.get("property") or "?")[:3]
                cases.append(("variant", name, p, regress.ALL))
    with Pool(min(16, max(1, len(cases)))) as pool:
        for kind, name, err, by in pool.map(regress.work, cases):
            pid = prop[name]
            own = sorted({x.split(" ")[0] for x in by.get(pid, [])})
            others = {q: sorted({x.split(" ")[0] for x in v}) for q, v in by.items() if v and q != pid}
            print("%s prop=%s %s own=%s others=%s" % (name, pid, err or ("REPORTED" if own else "missed"), ",".join(own), json.dumps(others)))
