#!/bin/bash
# regress.sh : reference tree silent, every kept seed caught, every behaviour-preserving variant silent
cd /verif
fail=0
for id in C02 C03 C05 C06 C07 C08 C09 C10 C11 C12 C13 C14 C15 C16 C17 C18; do
  ./check $id >/tmp/regress_$id.txt 2>&1 || { echo "REFERENCE TREE: $id fails"; grep -E "^\s+\[|anchor" /tmp/regress_$id.txt | head -5; fail=1; }
done
tools/check_seeds.sh | grep -v ": caught" && fail=1
tools/check_variants.sh | grep -v ": silent" && fail=1
[ $fail -eq 0 ] && echo "regress: all good"
exit $fail
