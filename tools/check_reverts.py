#!/usr/bin/env python3
"""check_reverts.py : every repair made in /repo (a `fix:` commit) is taken back on a scratch copy (reverts/<commit>.diff =
the reverse of that commit, rebased on today's tree) and the check of the property it was recorded under must report it
again - a `fixed:` entry in known_findings.json suppresses nothing."""
import json, os, sys
sys.path.insert(0, "/verif/tools")
import regress
from multiprocessing import Pool

PROP = {"54726ef": "C14", "a6a6e1a": "C13", "18a481f": "C12", "73e822d": "C09", "5c14780": "C15", "a863ca6+af183bb+bc7ee1f": "C08", "b50b1f9": "C11",
        "e5bb7bb": "C11", "601d30f": "C06", "3dbd095": "C11", "af183bb": "C11", "eb15c9c": "C13", "98e02d8": "C13", "04d943e": "C13",
        "3aaea4a": "C03", "c1d1872": "C07", "44b8863": "C11", "9d6f31b": "C13", "ec6e95c+ce824c1": "C11", "ce824c1": "C10", "fff5e49": "C13", "593aae7": "C11", "2dcd746": "C09", "a433e25": "C11", "3f13e4c": "C13", "3d0e0f6": "C11", "ca24969": "C03", "15121e4": "C16", "bc7ee1f": "C08"}

if __name__ == "__main__":
    cases = [("seed", c, "/verif/reverts/%s.diff" % c, [p]) for c, p in sorted(PROP.items()) if os.path.exists("/verif/reverts/%s.diff" % c)]
    bad = 0
    with Pool(16) as pool:
        for kind, name, err, by in pool.map(regress.work, cases):
            pid = PROP[name]
            got = by.get(pid, []) if not err else []
            ok = bool(got) and not err
            bad += 0 if ok else 1
            print("%-18s %s %s %s" % (name, pid, "reported" if ok else ("NOT REPORTED " + err), "; ".join(sorted({g.split(" ")[0] for g in got}))[:120]))
    print("reverts: %d, not reported: %d" % (len(cases), bad))
    sys.exit(1 if bad else 0)
