#!/bin/bash
# check_seeds.sh : every kept seeded change must still be caught by the check of its property
cd /repo || exit 2
git diff --quiet || { echo "/repo dirty"; exit 2; }
fail=0
for d in /verif/seeded/*/; do
  id=$(basename $d); pid=${id%%-*}
  git apply $d/patch.diff || { echo "$id: patch does not apply"; fail=1; continue; }
  out=$(cd /verif && ./check $pid 2>&1); rc=$?
  git checkout -q -- .
  if [ $rc -eq 1 ]; then echo "$id: caught ($(echo "$out" | grep -E '^\s+\[R-' | head -1 | cut -c1-110))"; else echo "$id: MISSED rc=$rc"; fail=1; fi
done
exit $fail
