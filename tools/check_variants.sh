#!/bin/bash
# check_variants.sh : every behaviour-preserving variant under /verif/variants must leave ALL checks silent
cd /repo || exit 2
git diff --quiet || { echo "/repo dirty"; exit 2; }
fail=0
for d in /verif/variants/*/; do
  id=$(basename $d)
  git apply $d/patch.diff 2>/dev/null || { echo "$id: patch does not apply (skipped)"; continue; }
  bad=""
  for pid in C02 C03 C05 C06 C07 C08 C09 C10 C11 C12 C13 C14 C15 C16 C17 C18; do
    (cd /verif && ./check $pid >/dev/null 2>&1) || bad="$bad $pid"
  done
  git checkout -q -- .
  if [ -z "$bad" ]; then echo "$id: silent"; else echo "$id: FALSE ALARM in$bad"; fail=1; fi
done
exit $fail
