#!/bin/bash
# keep_mutant.sh <worktree> <pid> <k> <letter> "<confirm line>" "<checks result>" <initially_missed true|false>
set -u
WT=$1; PID=$2; K=$3; L=$4; CONF=$5; RES=$6; IM=$7
D=/verif/seeded/$PID-${ROUND:-9}$L
mkdir -p "$D"
cp "$WT/_seed/patch$K.diff" "$D/patch.diff"
cp "$WT/_seed/seed_demo$K.rs" "$D/seed_demo.rs"
python3 - "$WT" "$D" "$K" "$CONF" "$RES" "$IM" <<'PY'
import json,sys
wt,d,k,conf,res,im=sys.argv[1:7]
try:
    mm=json.load(open(wt+'/_seed/meta.json'))
    m=[x for x in mm.get('mutants',[]) if str(x.get('k'))==k]
    m=dict(m[0]) if m else {}
    m['property']=m.get('property') or mm.get('property')
except Exception as e: m={"error":str(e)}
import os
m["kind"]=os.environ.get("KIND","small classic mutant")
m["confirmed_by_me"]=conf
m["what_i_ran"]=["tools/confirm_mutant.sh %s %s  (demo without the mutant / demo with it / existing suite with it)"%(wt,k), "tools/try_seed.sh patch.diff <property>"]
m["check_result"]=res
m["initially_missed"]=(im=="true")
json.dump(m,open(d+'/meta.json','w'),indent=1)
PY
echo kept $D
