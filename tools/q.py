#!/usr/bin/env python3
"""ad-hoc query helper: python3 tools/q.py atoms <regex>   |  prov <fn substr>   (development aid, not a check)"""
import sys, re
sys.path.insert(0, '/verif/engine/cfbsa')
import extract
from core import Ctx, load_tables, view
from prov import Prov
from rules_sink import guards, _edge_label

def ctx():
    import os
    return Ctx(extract.extract(os.environ.get('QREPO', '/repo'), 'cfb', 'dev'), load_tables())

if __name__ == '__main__':
    c = ctx()
    if sys.argv[1] == 'atoms':
        rx = sys.argv[2]
        for f in c.fx.fns.values():
            g = guards(c, f)
            for b, blk in enumerate(f.blocks):
                if blk['term']['t'] != 'switch':
                    continue
                for k, tgt in enumerate(f.succ(b)):
                    val, vals = _edge_label(f, b, k)
                    for a in g.describe_all(b, val, vals):
                        if re.search(rx, a):
                            print(f.path, 'bb%d' % b, 'edge', k, a[:200])
    elif sys.argv[1] == 'calls':
        for f in c.fx.fns.values():
            if sys.argv[2] in f.path:
                v = view(c, f); pr = Prov(f)
                for bb, cl in sorted(v.calls.items()):
                    print(f.path, 'bb%d' % bb, cl.line, cl.name, [pr.operand(a)[:90] for a in cl.term['args']])
