#!/bin/bash
# rebase_patch.sh <dir-with-patch.diff> : re-applies a stored patch to /repo's HEAD with a 3-way merge; if it merges cleanly and the
# repository's suite passes, the stored patch is replaced by the rebased one (the old one is kept as patch.prev.diff).
set -u
D=$1
cd /repo || exit 2
git diff --quiet || { echo "/repo dirty"; exit 2; }
if git apply --3way "$D/patch.diff" >/tmp/rebase.log 2>&1 && ! grep -q "with conflicts" /tmp/rebase.log; then
  if CARGO_NET_OFFLINE=true cargo test --workspace --offline >/tmp/rebase_suite.log 2>&1; then
    cp "$D/patch.diff" "$D/patch.prev.diff"
    git diff HEAD -- src > "$D/patch.diff"
    echo "$(basename $D): rebased"
  else
    echo "$(basename $D): merged but suite FAILS"
  fi
else
  echo "$(basename $D): CONFLICT"; grep -E "conflict|error" /tmp/rebase.log | head -3
fi
git reset -q --hard HEAD
