#!/bin/bash
# try_seed.sh <patch.diff> <property ids...> : applies a seeded change to /repo, runs the named checks, reverts.
set -u
P=$1; shift
cd /repo || exit 2
git diff --quiet || { echo "/repo has uncommitted changes"; exit 2; }
git apply "$P" || { echo "patch does not apply"; exit 2; }
for id in "$@"; do
  out=$(cd /verif && ./check "$id" 2>&1); rc=$?
  echo "== $id rc=$rc"
  echo "$out" | grep -E "VIOLATION|^\s+\[R-|CHECK-ERROR" | head -8
done
git checkout -q -- . 
git status --short | head -3
