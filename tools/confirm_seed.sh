#!/bin/bash
# confirm_seed.sh <worktree> : re-verifies a seeded change in its scratch worktree:
#   demo fails with the change, passes without it, the existing suite passes with it.
# Prints three lines WITH=.. WITHOUT=.. SUITE=..  (fail/pass)
set -u
WT=$1
cd "$WT" || exit 2
export CARGO_NET_OFFLINE=true
DEMO=$(ls tests/seed_demo*.rs 2>/dev/null | head -1)
[ -z "$DEMO" ] && { echo "no demo"; exit 2; }
NAME=$(basename "$DEMO" .rs)
# make sure the change is applied
git diff --quiet -- src && git apply _seed/patch.diff
timeout 900 cargo test --offline --test "$NAME" >"$WT/_seed/confirm_with.log" 2>&1 && W=pass || W=fail
# suite without the demo
mv "$DEMO" "$WT/_seed/_demo_hold.rs"
timeout 1800 cargo test --workspace --no-fail-fast --offline >"$WT/_seed/confirm_suite.log" 2>&1 && S=pass || S=fail
mv "$WT/_seed/_demo_hold.rs" "$DEMO"
git diff -- src > "$WT/_seed/_cur_patch.diff"
git checkout -q -- src
timeout 900 cargo test --offline --test "$NAME" >"$WT/_seed/confirm_without.log" 2>&1 && WO=pass || WO=fail
git apply "$WT/_seed/_cur_patch.diff"
echo "WITH=$W WITHOUT=$WO SUITE=$S"
