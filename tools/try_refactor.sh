#!/bin/bash
# try_refactor.sh <patch.diff> : applies a behaviour-preserving refactoring to /repo, runs ALL checks, reverts; prints every alarm (each is a false alarm)
set -u
P=$1
cd /repo || exit 2
git diff --quiet || { echo "/repo has uncommitted changes"; exit 2; }
git apply "$P" || { echo "patch does not apply"; exit 2; }
for id in C02 C03 C05 C06 C07 C08 C09 C10 C11 C12 C13 C14 C15 C16 C17 C18; do
  out=$(cd /verif && ./check "$id" 2>&1); rc=$?
  if [ $rc -ne 0 ]; then echo "== $id rc=$rc"; echo "$out" | grep -E "^\s+\[|CHECK-ERROR" | cut -c1-330 | head -12; fi
done
git checkout -q -- .
echo "reverted: $(git status --short | wc -l) changes left"
