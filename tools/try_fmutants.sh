#!/bin/bash
# try_fmutants.sh <group>... : /tmp/wt11-<group>/_seed/patch<k>.diff with the property named in meta.json: apply to /repo, run that property's check
# (and, if it is silent, all checks), revert; one line per mutant
for g in "$@"; do for k in 1 2 3 4 5; do
  P=/tmp/wt11-$g/_seed/patch$k.diff; [ -f $P ] || continue
  pid=$(python3 -c "
import json,sys
m=json.load(open('/tmp/wt11-$g/_seed/meta.json'))
x=[y for y in m['mutants'] if str(y.get('k'))=='$k']
print((x[0].get('property') or '?')[:3] if x else '?')")
  cd /repo; git apply $P 2>/dev/null || { echo "$g m$k patch does not apply"; continue; }
  out=$(cd /verif && ./check $pid 2>&1); rc=$?
  rules=$(echo "$out" | grep -oE "^\s+\[R-[A-Z0-9.()a-z -]+\]" | sort -u | tr -d ' \n')
  others=""
  if [ $rc -eq 0 ]; then
    for q in C02 C03 C05 C06 C07 C08 C09 C10 C11 C12 C13 C14 C15 C16 C17 C18; do
      [ $q = $pid ] && continue
      o2=$(cd /verif && ./check $q 2>&1); r2=$?
      [ $r2 -ne 0 ] && others="$others $q:$(echo "$o2" | grep -oE "^\s+\[R-[A-Z0-9.()a-z -]+\]" | sort -u | tr -d ' \n')"
    done
  fi
  git checkout -q -- .
  echo "$g m$k prop=$pid rc=$rc $rules others:$others"
done; done
