#!/bin/bash
# confirm_mutant.sh <worktree> <k> : worktree is clean; _seed/patch<k>.diff + _seed/seed_demo<k>.rs.
# prints WITH=<demo result with the mutant> WITHOUT=<demo result without> SUITE=<existing suite with the mutant>
set -u
WT=$1; K=$2
cd "$WT" || exit 2
export CARGO_NET_OFFLINE=true CARGO_TARGET_DIR="$WT/target"
git checkout -q -- . ; rm -f tests/seed_demo*.rs
cp _seed/seed_demo$K.rs tests/seed_demo_m.rs
timeout 900 cargo test --offline --test seed_demo_m >/tmp/cm_$$.log 2>&1 && WITHOUT=pass || WITHOUT=fail
git apply _seed/patch$K.diff || { echo "patch$K does not apply"; rm -f tests/seed_demo_m.rs; exit 2; }
timeout 900 cargo test --offline --test seed_demo_m >/tmp/cm_$$.log 2>&1 && WITH=pass || WITH=fail
rm -f tests/seed_demo_m.rs
timeout 1800 cargo test --workspace --offline >/tmp/cm_$$.log 2>&1 && SUITE=pass || SUITE=fail
git checkout -q -- .
rm -f /tmp/cm_$$.log
echo "WITH=$WITH WITHOUT=$WITHOUT SUITE=$SUITE"
