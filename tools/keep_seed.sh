#!/bin/bash
# keep_seed.sh <worktree> <seed-id> "<confirm line>" "<checks result>" : stores a confirmed seeded change under /verif/seeded/<seed-id>/
set -u
WT=$1; ID=$2; CONF=$3; RES=$4
D=/verif/seeded/$ID
mkdir -p "$D"
cp "$WT/_seed/patch.diff" "$D/patch.diff"
cp "$WT"/tests/seed_demo*.rs "$D/" 2>/dev/null
python3 - "$WT" "$D" "$CONF" "$RES" <<'PY'
import json,sys
wt,d,conf,res=sys.argv[1:5]
try: m=json.load(open(wt+'/_seed/meta.json'))
except Exception as e: m={"error":str(e)}
m["confirmed_by_me"]=conf
m["what_i_ran"]=["tools/confirm_seed.sh %s  (demo with change / demo without change / existing suite with change)"%wt, "tools/try_seed.sh patch.diff <property>  (apply to /repo, run ./check, git checkout -- .)"]
m["check_result"]=res
json.dump(m,open(d+'/meta.json','w'),indent=1)
PY
echo kept $D
