#!/bin/bash
# freeze_reference.sh : records the current /repo tree as the reference tree (src hash + function list)
cd /verif/engine/cfbsa && python3 - <<'PY'
import sys,json,subprocess; sys.path.insert(0,'/verif/engine/cfbsa')
import extract
from facts import Facts
h=extract.src_hash('/repo')
p='/verif/rules/reference.json'
try: d=json.load(open(p))
except Exception: d={"_reason":"src/ hashes of the trees the rule tables were frozen on: the pinned commit plus this work's fix: commits. Self-test failures and 'layout not derivable' only fail the check on these trees.","src_hashes":[],"commits":[]}
if h not in d["src_hashes"]:
    d["src_hashes"].append(h); d["commits"].append(subprocess.check_output(['git','-C','/repo','rev-parse','--short','HEAD'],text=True).strip())
json.dump(d,open(p,'w'),indent=1)
fx=Facts(extract.extract('/repo','cfb'))
k=json.load(open('/verif/rules/known_functions.json'))
k['functions']=sorted((set(k['functions'])|set(fx.fns))-set(k.get('inline',[])))
json.dump(k,open('/verif/rules/known_functions.json','w'),indent=0)
print('reference', h[:16], len(k['functions']))
PY
