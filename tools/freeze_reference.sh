#!/bin/bash
# freeze_reference.sh : records the current /repo tree as the reference tree (src hash + function list)
cd /verif/engine/cfbsa && python3 - <<'PY'
import sys,json,subprocess; sys.path.insert(0,'/verif/engine/cfbsa')
import extract
from facts import Facts
h=extract.src_hash('/repo')
p='/verif/rules/reference.json'
try: d=json.load(open(p))
except Exception: d={"_reason":"src/ hashes of the trees the rule tables were frozen on: the pinned commit plus this work's fix: commits. Self-test failures and 'layout not derivable' only fail the check on these trees.","src_hashes":[],"commits":[]}
if h not in d["src_hashes"]:
    d["src_hashes"].append(h); d["commits"].append(subprocess.check_output(['git','-C','/repo','rev-parse','--short','HEAD'],text=True).strip())
json.dump(d,open(p,'w'),indent=1)
fx=Facts(extract.extract('/repo','cfb'))
k=json.load(open('/verif/rules/known_functions.json'))
k['functions']=sorted((set(k['functions'])|set(fx.fns))-set(k.get('inline',[])))
from facts import _sig_text
sg=k.get('signatures',{})
for s_ in fx.d['sigs']:
    if s_['path'] in k['functions']: sg[s_['path']]=_sig_text(s_)
k['signatures']=sg
from facts import body_fingerprint
k['fingerprints']={b_['path']:body_fingerprint(b_) for b_ in fx.d['bodies'] if b_['path'] in k['functions'] and b_['kind'] in ('fn','assocfn')}
k['consts']=sorted(c_['path'] for c_ in fx.d['consts'])
k['locals']={}
for b_ in fx.d['bodies']:
    if b_['path'] in k['functions']:
        ls=[]
        for v in b_.get('debug',[]):
            pl=v['place']
            if pl['proj'] or pl['local']<=b_.get('arg_count',0): continue
            e=[v['name'],b_['locals'][pl['local']].get('s','?')]
            if e not in ls: ls.append(e)
        if ls: k['locals'][b_['path']]=ls
k['params']={}
for b_ in fx.d['bodies']:
    if b_['path'] in k['functions'] and b_['kind'] in ('fn','assocfn'):
        nm={v['place']['local']:v['name'] for v in b_.get('debug',[]) if not v['place']['proj']}
        if all(i in nm for i in range(1,b_['arg_count']+1)):
            k['params'][b_['path']]=[[nm[i],b_['locals'][i].get('s','?')] for i in range(1,b_['arg_count']+1)]
k['fields']={a['path']:[[f['name'],f['ty'].get('s','?')] for f in a['variants'][0]['fields']] for a in fx.d['adts'] if not a['is_enum'] and a['variants'] and a['path'].startswith(('internal::','CompoundFile','Entries','Entry','OpenOptions','CreateOptions'))}
json.dump(k,open('/verif/rules/known_functions.json','w'),indent=0)
# sink keys covered by each audited entry on this tree
sys.path.insert(0,'/verif/engine/cfbsa')
from core import Ctx, load_tables
import rules_sink
tabs=load_tables(); tabs.pop('sink_keys',None)
ctx=Ctx(extract.extract('/repo','cfb'), tabs)
cl=rules_sink.Classifier(ctx)
sk={}
pn={}
for p_,f in ctx.fx.fns.items():
    for s_ in rules_sink.enumerate_sinks(f):
        if s_['kind'].startswith('Panic:'):
            sg=cl.panic_signature(f,s_)
            if sg not in pn.setdefault(p_,[]): pn[p_].append(sg)
        desc,atoms,auto=cl.classify(f,s_)
        if auto: continue
        e=cl.audited(f,s_['kind'],desc,atoms)
        if e is None or e['class'].startswith('known-finding'): continue
        sk.setdefault(p_,[])
        key='%s|%s'%(s_['kind'],rules_sink.shape_of(desc))
        if key not in sk[p_]: sk[p_].append(key)
old={}
try: old=json.load(open('/verif/rules/sink_keys.json')).get('functions',{})
except Exception: pass
for p_,ks in old.items():
    for k_ in ks:
        if k_ not in sk.setdefault(p_,[]): sk[p_].append(k_)
json.dump({'_reason':'for every function with audited sink entries: the sinks (kind | operator skeleton) those entries were written for, on the reference trees; a site outside this set is not covered by the old audit','functions':sk,'panics':pn},open('/verif/rules/sink_keys.json','w'),indent=0)
print('reference', h[:16], len(k['functions']), 'audited sink keys', sum(len(v) for v in sk.values()))
PY
