#!/usr/bin/env python3
"""regress.py : (1) every check passes on /repo as it stands, (2) every kept seeded change is reported by the check
of its own property, (3) every behaviour-preserving variant leaves ALL sixteen checks silent.
Each patch is applied to a scratch copy (mkdtemp), extracted once, and judged by the rules in-process; 16 workers."""
import json, os, re, shutil, subprocess, sys, tempfile, time
sys.path.insert(0, "/verif/engine/cfbsa")
import extract, props, runner
from core import Ctx, load_tables

REPO = "/repo"
ALL = sorted(props.PROPS)


def judge(ctx, pid):
    known = {k["key"] for k in runner.load_known().get("findings", []) if k["property"] == pid}
    out = []
    for rule in props.PROPS[pid]["rules"]:
        res = rule(ctx)
        for f in res.findings:
            key = re.sub(r"\{closure#\d+\}", "{closure}", f.key)
            if key not in known:
                out.append("%s %s:%s" % (res.rule, f.file, f.line) + ((" :: " + f.msg[:400]) if os.environ.get("VERBOSE") else ""))
        for (n, c, fl) in res.floor_failures(reference=bool(getattr(ctx, '_is_ref', False))):
            out.append("%s floor %s %d<%d" % (res.rule, n, c, fl))
    return out


def work(args):
    kind, name, patch, pids = args
    tmp = tempfile.mkdtemp(prefix="cfbsa-reg-")
    try:
        dst = os.path.join(tmp, "repo")
        shutil.copytree(REPO, dst, ignore=shutil.ignore_patterns("target", ".git", "_seed"))
        if patch:
            r = subprocess.run(["git", "apply", "--whitespace=nowarn", patch], cwd=dst, stdout=subprocess.PIPE, stderr=subprocess.STDOUT, text=True)
            if r.returncode != 0:
                return (kind, name, "PATCH DOES NOT APPLY", {})
        try:
            facts = extract.extract(dst, "cfb", "dev", out_path=os.path.join(tmp, "facts.json"))
        except extract.ExtractError as e:
            return (kind, name, "DOES NOT COMPILE", {})
        ctx = Ctx(facts, load_tables(), name=name)
        ctx.repo_dir = dst
        ctx._is_ref = (kind == "reference")
        return (kind, name, "", {pid: judge(ctx, pid) for pid in pids})
    finally:
        shutil.rmtree(tmp, ignore_errors=True)


def main():
    t0 = time.time()
    cases = [("reference", "/repo", None, ALL)]
    for d in sorted(os.listdir("/verif/seeded")):
        try:
            if json.load(open("/verif/seeded/%s/meta.json" % d)).get("retired"):
                continue
        except (OSError, ValueError):
            pass
        cases.append(("seed", d, "/verif/seeded/%s/patch.diff" % d, [d.split("-")[0]]))
    for d in sorted(os.listdir("/verif/variants"), key=lambda x: int(x[1:])):
        cases.append(("variant", d, "/verif/variants/%s/patch.diff" % d, ALL))
    from multiprocessing import Pool
    with Pool(16) as pool:
        res = pool.map(work, cases)
    bad = 0
    for kind, name, err, by in res:
        if err:
            print("%s %s: %s" % (kind, name, err)); bad += 1; continue
        if kind == "seed":
            pid = name.split("-")[0]
            if not by[pid]:
                print("seed %s: MISSED" % name); bad += 1
        else:
            al = {p: v for p, v in by.items() if v}
            if al:
                bad += 1
                print("%s %s: ALARM %s" % (kind, name, json.dumps(al)[:600]))
    ns = sum(1 for r in res if r[0] == "seed"); nv = sum(1 for r in res if r[0] == "variant")
    print("regress: %d seeds, %d variants, reference tree; %d problem(s); %.0f s" % (ns, nv, bad, time.time() - t0))
    return 1 if bad else 0


if __name__ == "__main__":
    sys.exit(main())
