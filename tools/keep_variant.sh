#!/bin/bash
# keep_variant.sh <worktree> <id> : confirm the suite passes with the refactoring, store it under /verif/variants/<id>/
set -u
WT=$1; ID=$2
cd "$WT" || exit 2
git diff -- src > _seed/patch.diff
CARGO_NET_OFFLINE=true timeout 1800 cargo test --workspace --offline > _seed/suite.log 2>&1 && S=pass || S=fail
echo "$ID suite=$S"
[ "$S" = pass ] || exit 1
mkdir -p /verif/variants/$ID
cp _seed/patch.diff /verif/variants/$ID/patch.diff
cp _seed/notes.md /verif/variants/$ID/notes.md 2>/dev/null
